package kit

import (
	"context"
	"math/rand/v2"
	"runtime"
	"sync"
	"sync/atomic"

	"github.com/tychoish/fun"
)

// Speed is a speed profile applied inside user callbacks (which are
// genuine suspension points of the library).
type Speed int

const (
	Fast Speed = iota
	Yield1
	Yield8
	Spin
	SlowFirst
	SlowLast
	Bursty
	NumSpeeds
)

func (s Speed) String() string {
	return [...]string{"fast", "yield1", "yield8", "spin", "slowfirst", "slowlast", "bursty"}[s]
}

// Pace perturbs the schedule according to the profile. i is the index
// of the call (item), n the expected number of calls, x a per-call
// pseudo-random value.
func (s Speed) Pace(i, n int, x uint64) {
	switch s {
	case Fast:
	case Yield1:
		runtime.Gosched()
	case Yield8:
		for k := 0; k < 8; k++ {
			runtime.Gosched()
		}
	case Spin:
		spin(int(x % 2000))
	case SlowFirst:
		if i == 0 {
			for k := 0; k < 50; k++ {
				runtime.Gosched()
			}
			spin(3000)
		}
	case SlowLast:
		if i >= n-1 {
			for k := 0; k < 50; k++ {
				runtime.Gosched()
			}
			spin(3000)
		}
	case Bursty:
		if x%5 == 0 {
			for k := 0; k < 20; k++ {
				runtime.Gosched()
			}
		}
	}
}

var spinSink atomic.Uint64

func spin(n int) {
	var a uint64 = 1
	for i := 0; i < n; i++ {
		a = a*6364136223846793005 + 1442695040888963407
	}
	spinSink.Add(a & 1)
}

// Yields calls Gosched n times.
func Yields(n int) {
	for i := 0; i < n; i++ {
		runtime.Gosched()
	}
}

// RandSpeed draws a profile.
func RandSpeed(r *rand.Rand) Speed { return Speed(r.IntN(int(NumSpeeds))) }

// Barrier releases n goroutines at once: they park until the last one
// arrives and then align once more by spinning on a counter (bounded),
// because goroutines woken by a closed channel start one after the other,
// microseconds apart.
type Barrier struct {
	n     int32
	cnt   atomic.Int32
	awake atomic.Int32
	gate  chan struct{}
}

func NewBarrier(n int) *Barrier { return &Barrier{n: int32(n), gate: make(chan struct{})} }

// Wait blocks until n goroutines have arrived.
func (b *Barrier) Wait() {
	if b.cnt.Add(1) == b.n {
		close(b.gate)
	} else {
		<-b.gate
	}
	b.awake.Add(1)
	for spins := 0; spins < 4000 && b.awake.Load() < b.n; spins++ {
		if spins%200 == 199 {
			runtime.Gosched()
		}
	}
}

// SpinBarrier releases n goroutines within nanoseconds of each other:
// they spin on a counter instead of being woken one after the other.
type SpinBarrier struct {
	n   int32
	cnt atomic.Int32
}

func NewSpinBarrier(n int) *SpinBarrier { return &SpinBarrier{n: int32(n)} }

// Wait spins (yielding now and then, so that it also works with fewer
// processors than goroutines) until n goroutines have arrived.
func (b *SpinBarrier) Wait() {
	b.cnt.Add(1)
	for spins := 0; b.cnt.Load() < b.n; spins++ {
		if spins%200 == 199 {
			runtime.Gosched()
		}
	}
}

// ---- hook scripting -------------------------------------------------

var hookMu sync.Mutex

// WithHook installs handler for the verif yield points while fn runs.
// Hooks are process-global, so scenarios that use them are serialised.
func WithHook(handler func(point string), fn func()) {
	hookMu.Lock()
	defer hookMu.Unlock()
	restore := fun.VerifSetHook(handler)
	defer restore()
	fn()
}

// HookCounter counts how often each point was reached.
type HookCounter struct {
	mu sync.Mutex
	m  map[string]int
}

func (h *HookCounter) Hit(p string) int {
	h.mu.Lock()
	defer h.mu.Unlock()
	if h.m == nil {
		h.m = map[string]int{}
	}
	h.m[p]++
	return h.m[p]
}

func (h *HookCounter) Get(p string) int {
	h.mu.Lock()
	defer h.mu.Unlock()
	return h.m[p]
}

// expiringCtx is a context that ends with context.DeadlineExceeded when
// the monitor says so: a deadline without a timer, so that scenarios
// decided at quiescence can still exercise "the deadline passed".
type expiringCtx struct {
	context.Context
	done chan struct{}
	once sync.Once
}

func (c *expiringCtx) Done() <-chan struct{} { return c.done }
func (c *expiringCtx) Err() error {
	select {
	case <-c.done:
		return context.DeadlineExceeded
	default:
		return nil
	}
}

// NewExpiringContext returns a context and the function that makes its
// deadline pass.
func NewExpiringContext() (context.Context, func()) {
	c := &expiringCtx{Context: context.Background(), done: make(chan struct{})}
	return c, func() { c.once.Do(func() { close(c.done) }) }
}
