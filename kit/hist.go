package kit

import (
	"sync"
	"time"

	"github.com/anishathalye/porcupine"
)

// Hist records a concurrent history at the client boundary with the
// process-wide logical clock (DESIGN 3.1): call stamp immediately
// before the library call, return stamp immediately after.
type Hist struct {
	mu  sync.Mutex
	ops []porcupine.Operation
}

// Do records one operation of a client. fn performs the library call
// and returns its observable output.
func (h *Hist) Do(client int, input any, fn func() any) any {
	call := Stamp()
	out := fn()
	ret := Stamp()
	h.mu.Lock()
	h.ops = append(h.ops, porcupine.Operation{ClientId: client, Input: input, Call: call, Output: out, Return: ret})
	h.mu.Unlock()
	return out
}

func (h *Hist) Ops() []porcupine.Operation {
	h.mu.Lock()
	defer h.mu.Unlock()
	return append([]porcupine.Operation(nil), h.ops...)
}

// Overlaps counts pairs of operations of different clients whose
// intervals overlap (a measure of how concurrent the history was).
func Overlaps(ops []porcupine.Operation) int {
	n := 0
	for i := range ops {
		for j := i + 1; j < len(ops); j++ {
			if ops[i].ClientId != ops[j].ClientId && ops[i].Call < ops[j].Return && ops[j].Call < ops[i].Return {
				n++
			}
		}
	}
	return n
}

// CheckLin runs porcupine with a timeout: Ok / Illegal / Unknown.
func CheckLin(model porcupine.Model, ops []porcupine.Operation, timeout time.Duration) porcupine.CheckResult {
	Progress.Add(1)
	defer Progress.Add(1)
	res, _ := porcupine.CheckOperationsVerbose(model, ops, timeout)
	return res
}
