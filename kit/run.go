// Package kit holds the shared instruments of the runtime monitors:
// the child-side run context (this file), the logical clock, the
// goroutine census / deadlock-at-quiescence detector, schedule
// perturbation helpers and the hook scripting layer.
package kit

import (
	"bufio"
	"encoding/json"
	"fmt"
	"hash/fnv"
	"math/rand/v2"
	"os"
	"runtime"
	"runtime/debug"
	"sort"
	"strings"
	"sync"
	"sync/atomic"
	"time"
)

// Record is one line of the child's JSONL output stream.
type Record struct {
	T        string           `json:"t"` // viol | inconc | stats | done
	Prop     string           `json:"prop,omitempty"`
	Sig      string           `json:"sig,omitempty"`
	Case     any              `json:"case,omitempty"`
	CaseIdx  int64            `json:"case_idx,omitempty"`
	Detail   string           `json:"detail,omitempty"`
	Witness  any              `json:"witness,omitempty"`
	Reason   string           `json:"reason,omitempty"`
	Evals    int64            `json:"evals,omitempty"`
	Distinct []string         `json:"distinct,omitempty"`
	Counters map[string]int64 `json:"counters,omitempty"`
	Samples  []any            `json:"samples,omitempty"`
	Shard    int              `json:"shard"`
	Seed     uint64           `json:"seed,omitempty"`
	Build    string           `json:"build,omitempty"`
}

// Run is the context handed to a monitor in a child process.
type Run struct {
	Prop    string
	Seed    uint64
	Tier    string
	Shard   int
	NShards int
	Build   string   // plain | race | race126
	Replay  int64    // case index to replay, -1 for none
	Reps    int      // replay repetitions
	Known   []string // signatures of recorded (open) findings: reported, but they do not end the search

	mu       sync.Mutex
	out      *bufio.Writer
	outf     *os.File
	cur      *os.File
	evals    atomic.Int64
	viols    atomic.Int64
	distinct map[string]struct{}
	counters map[string]int64
	samples  []any
	start    time.Time
	knownN   map[string]int
	halted   atomic.Bool
	curIdx   atomic.Int64
	curDesc  atomic.Value
}

// MaxViolations is the number of violations after which a child stops
// looking (the log stays small, the first witnesses are what matters).
const MaxViolations = 12

func NewRun(prop string, seed uint64, tier string, shard, nshards int, build, outPath string, replay int64) (*Run, error) {
	f, err := os.Create(outPath)
	if err != nil {
		return nil, err
	}
	cur, err := os.Create(outPath + ".cur")
	if err != nil {
		return nil, err
	}
	return &Run{Prop: prop, Seed: seed, Tier: tier, Shard: shard, NShards: nshards, Build: build, Replay: replay,
		out: bufio.NewWriter(f), outf: f, cur: cur,
		distinct: map[string]struct{}{}, counters: map[string]int64{}, start: time.Now()}, nil
}

func (r *Run) Quick() bool { return r.Tier != "thorough" }

// Scale picks a count by tier.
func (r *Run) Scale(quick, thorough int) int {
	if r.Quick() {
		return quick
	}
	return thorough
}

func hash64(s string) uint64 { h := fnv.New64a(); h.Write([]byte(s)); return h.Sum64() }

// Rng returns the generator of one case: it depends only on the seed,
// the property, a stream label and the case index, never on the shard
// layout or on time, so that a case index replays the same case.
func (r *Run) Rng(stream string, caseIdx int64) *rand.Rand {
	return rand.New(rand.NewPCG(r.Seed^hash64(r.Prop+"/"+stream), uint64(caseIdx)*0x9E3779B97F4A7C15+1))
}

// Mine reports whether this child is responsible for the case.
func (r *Run) Mine(caseIdx int64) bool {
	if r.Replay >= 0 {
		if caseIdx == r.Replay {
			r.curIdx.Store(caseIdx)
		}
		return caseIdx == r.Replay
	}
	if r.viols.Load() >= MaxViolations || r.halted.Load() {
		return false
	}
	if int(caseIdx%int64(r.NShards)) == r.Shard {
		r.curIdx.Store(caseIdx)
		return true
	}
	return false
}

// Stopped is true once enough violations were collected.
func (r *Run) Stopped() bool { return r.viols.Load() >= MaxViolations || r.halted.Load() }

// Halt ends this child's search after the current case: the process is
// no longer in a state in which further cases can be judged (a leaked
// goroutine keeps running).
func (r *Run) Halt() { r.halted.Store(true) }

func (r *Run) Eval()             { r.evals.Add(1); Progress.Add(1) }
func (r *Run) EvalN(n int64)     { r.evals.Add(n); Progress.Add(1) }
func (r *Run) Evals() int64      { return r.evals.Load() }
func (r *Run) Violations() int64 { return r.viols.Load() }

// Distinct registers a distinct non-trivial case key.
func (r *Run) Distinct(key string) {
	Progress.Add(1)
	r.mu.Lock()
	if len(r.distinct) < MaxDistinctKeys {
		r.distinct[key] = struct{}{}
	} else if _, ok := r.distinct[key]; !ok {
		r.counters["distinct_keys_not_recorded(cap reached, count is conservative)"]++
	}
	r.mu.Unlock()
}

// MaxDistinctKeys bounds the per-child set of distinct case keys (the
// reported number is then a conservative lower bound).
const MaxDistinctKeys = 100000

func (r *Run) Count(name string, n int64) {
	Progress.Add(1)
	r.mu.Lock()
	r.counters[name] += n
	r.mu.Unlock()
}

// Max keeps the maximum of a gauge.
func (r *Run) Max(name string, n int64) {
	r.mu.Lock()
	if r.counters[name] < n {
		r.counters[name] = n
	}
	r.mu.Unlock()
}

// Sample keeps the first few cases written out.
func (r *Run) Sample(v any) {
	r.mu.Lock()
	if len(r.samples) < 3 {
		r.samples = append(r.samples, v)
	}
	r.mu.Unlock()
}

func (r *Run) WantSample() bool {
	r.mu.Lock()
	defer r.mu.Unlock()
	return len(r.samples) < 3
}

// Current records the case about to run so that a process-fatal event
// can be attributed.
func (r *Run) Current(caseIdx int64, desc string) {
	Progress.Add(1)
	r.curIdx.Store(caseIdx)
	r.curDesc.Store(desc)
	b := []byte(fmt.Sprintf("%-20d %-400.400s\n", caseIdx, desc))
	_, _ = r.cur.WriteAt(b, 0)
}

// Progress is bumped whenever a monitor completes a step (a case is
// counted, a wait helper returns, a history check starts or ends). The
// child's stall detector reads it.
var Progress atomic.Int64

// WatchStall starts the child's stall detector: when Progress does not
// move for limit, the case in progress is written out as a "stall"
// record together with a dump of all goroutines and the process exits
// with status 4. The driver re-executes that case in fresh processes
// before it draws any conclusion. A library call that spins (and
// therefore never reaches quiescence) is only observable this way.
func (r *Run) WatchStall(limit time.Duration) {
	go func() {
		last, since := Progress.Load(), time.Now()
		for {
			time.Sleep(500 * time.Millisecond)
			if p := Progress.Load(); p != last {
				last, since = p, time.Now()
				continue
			}
			if time.Since(since) < limit {
				continue
			}
			buf := make([]byte, 4<<20)
			buf = buf[:runtime.Stack(buf, true)]
			if len(buf) > 96<<10 {
				buf = buf[:96<<10]
			}
			desc, _ := r.curDesc.Load().(string)
			r.emit(Record{T: "stall", Prop: r.Prop, CaseIdx: r.curIdx.Load(), Case: desc, Seed: r.Seed, Build: r.Build,
				Detail:  fmt.Sprintf("no monitor step completed for %v", limit),
				Witness: string(buf)})
			os.Exit(4)
		}
	}()
}

func (r *Run) emit(rec Record) {
	rec.Shard = r.Shard
	r.mu.Lock()
	defer r.mu.Unlock()
	b, err := json.Marshal(rec)
	if err != nil {
		b, _ = json.Marshal(Record{T: rec.T, Prop: rec.Prop, Sig: rec.Sig, Detail: rec.Detail + " (unmarshalable witness: " + err.Error() + ")", Shard: r.Shard})
	}
	r.out.Write(b)
	r.out.WriteByte('\n')
	r.out.Flush()
}

// Violation reports a violation with a stable signature.
func (r *Run) Violation(sig string, caseIdx int64, caseDesc any, detail string, witness any) {
	for _, k := range r.Known {
		if k == sig || (strings.HasSuffix(k, "/*") && strings.HasPrefix(sig, strings.TrimSuffix(k, "*"))) {
			r.mu.Lock()
			if r.knownN == nil {
				r.knownN = map[string]int{}
			}
			r.knownN[sig]++
			n := r.knownN[sig]
			r.mu.Unlock()
			if n > 3 {
				r.Count("known:"+sig, 1)
				return
			}
			r.emit(Record{T: "viol", Prop: r.Prop, Sig: sig, CaseIdx: caseIdx, Case: caseDesc, Detail: detail, Witness: witness, Seed: r.Seed, Build: r.Build})
			return
		}
	}
	r.viols.Add(1)
	r.emit(Record{T: "viol", Prop: r.Prop, Sig: sig, CaseIdx: caseIdx, Case: caseDesc, Detail: detail, Witness: witness, Seed: r.Seed, Build: r.Build})
}

// Inconclusive reports that no verdict could be reached for a case.
func (r *Run) Inconclusive(reason string) {
	r.emit(Record{T: "inconc", Prop: r.Prop, Reason: reason})
}

// Finish writes the statistics and the terminating record.
func (r *Run) Finish() {
	r.mu.Lock()
	keys := make([]string, 0, len(r.distinct))
	for k := range r.distinct {
		keys = append(keys, k)
	}
	sort.Strings(keys)
	ctr := map[string]int64{}
	for k, v := range r.counters {
		ctr[k] = v
	}
	samples := r.samples
	r.mu.Unlock()
	r.emit(Record{T: "stats", Prop: r.Prop, Evals: r.evals.Load(), Distinct: keys, Counters: ctr, Samples: samples, Build: r.Build})
	r.emit(Record{T: "done", Prop: r.Prop})
	r.outf.Close()
	r.cur.Close()
}

// Guard runs fn and converts a panic in the calling goroutine into a
// returned description (value and stack).
func Guard(fn func()) (panicked bool, val any, stack string) {
	defer func() {
		if p := recover(); p != nil {
			panicked, val, stack = true, p, string(debug.Stack())
		}
	}()
	fn()
	return
}

// WithProcs runs fn with the given GOMAXPROCS and restores the old
// value.
func WithProcs(n int, fn func()) {
	old := runtime.GOMAXPROCS(n)
	defer runtime.GOMAXPROCS(old)
	fn()
}

// ProcsFor cycles through the GOMAXPROCS regimes used for schedule
// perturbation.
func ProcsFor(i int64) int { return []int{1, 2, 4, 16}[int(i%4+4)%4] }

// Clock is the process-wide logical clock (DESIGN 3.1).
var Clock atomic.Int64

func Stamp() int64 { return Clock.Add(1) }
