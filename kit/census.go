package kit

import (
	"bytes"
	"fmt"
	"runtime"
	"sort"
	"strings"
	"sync"
	"time"
)

// ModulePath marks the frames that belong to the library under test.
const ModulePath = "github.com/tychoish/fun"

// G is one goroutine of a census.
type G struct {
	ID       string
	State    string // e.g. "chan receive", "sync.Cond.Wait", "running"
	Relevant bool   // some frame (or the creator) is in the module
	TopFun   string // innermost frame inside the module ("" if none)
	Top      string // innermost frame at all
	Stack    string // full text
}

// Blocked reports whether the goroutine cannot run without an external
// event (a timer is treated as an event source: "sleep" is not blocked).
func (g G) Blocked() bool {
	s := g.State
	switch {
	case strings.HasPrefix(s, "running"), strings.HasPrefix(s, "runnable"),
		strings.HasPrefix(s, "sleep"), strings.HasPrefix(s, "syscall"),
		strings.HasPrefix(s, "GC "), strings.HasPrefix(s, "preempted"),
		strings.HasPrefix(s, "copystack"), strings.HasPrefix(s, "waiting"):
		return false
	}
	return true
}

// Census is a consistent (stop-the-world) snapshot of all goroutines
// except the caller.
type Census struct {
	All []G
}

var (
	censusBuf = make([]byte, 4<<20)
	censusMu  sync.Mutex
)

// TakeCensus snapshots every goroutine but the calling one. Only one
// goroutine may take censuses at a time (they share a buffer).
func TakeCensus() Census {
	// A goroutine that polls censuses (a hook handler waiting for a helper
	// goroutine to react) is blocked on censusMu whenever Quiesce takes its
	// own snapshot and would look parked twice in a row: advancing the
	// logical clock here keeps Quiesce from mistaking that for quiescence.
	Stamp()
	return takeCensus()
}

func takeCensus() Census {
	censusMu.Lock()
	defer censusMu.Unlock()
	n := runtime.Stack(censusBuf, true)
	for n == len(censusBuf) {
		censusBuf = make([]byte, 2*len(censusBuf))
		n = runtime.Stack(censusBuf, true)
	}
	blocks := bytes.Split(censusBuf[:n], []byte("\n\n"))
	var c Census
	for i, b := range blocks {
		if i == 0 { // the caller
			continue
		}
		g, ok := parseG(string(b))
		if ok && strings.Contains(g.Stack, "kit.(*Run).WatchStall") {
			continue // the child's own stall detector sleeps on a timer
		}
		if ok {
			c.All = append(c.All, g)
		}
	}
	return c
}

func parseG(s string) (G, bool) {
	s = strings.TrimSpace(s)
	if !strings.HasPrefix(s, "goroutine ") {
		return G{}, false
	}
	nl := strings.IndexByte(s, '\n')
	head := s
	rest := ""
	if nl >= 0 {
		head, rest = s[:nl], s[nl+1:]
	}
	var g G
	g.Stack = s
	// goroutine 12 [chan receive, 2 minutes, locked to thread]:
	lb, rb := strings.IndexByte(head, '['), strings.LastIndexByte(head, ']')
	if lb < 0 || rb < lb {
		return G{}, false
	}
	g.ID = strings.TrimSpace(head[len("goroutine "):lb])
	st := head[lb+1 : rb]
	if c := strings.IndexByte(st, ','); c >= 0 {
		st = st[:c]
	}
	g.State = st
	for _, ln := range strings.Split(rest, "\n") {
		if strings.HasPrefix(ln, "\t") {
			continue
		}
		created := strings.HasPrefix(ln, "created by ")
		fn := ln
		if created {
			fn = strings.TrimPrefix(ln, "created by ")
			if i := strings.Index(fn, " in goroutine"); i >= 0 {
				fn = fn[:i]
			}
		} else if i := strings.LastIndexByte(fn, '('); i >= 0 {
			fn = fn[:i]
		}
		if g.Top == "" && !created {
			g.Top = fn
		}
		if strings.HasPrefix(fn, ModulePath) {
			g.Relevant = true
			if g.TopFun == "" && !created {
				g.TopFun = fn
			}
		}
	}
	return g, true
}

// Relevant returns the goroutines that have a frame in the module.
func (c Census) Relevant() []G {
	var out []G
	for _, g := range c.All {
		if g.Relevant {
			out = append(out, g)
		}
	}
	return out
}

// AllBlocked is true when no goroutine other than the caller can run.
func (c Census) AllBlocked() bool {
	for _, g := range c.All {
		if !g.Blocked() {
			return false
		}
	}
	return true
}

// Signature identifies the snapshot for the stability test.
func (c Census) Signature() string {
	parts := make([]string, 0, len(c.All))
	for _, g := range c.All {
		parts = append(parts, g.ID+"|"+g.State+"|"+g.Top)
	}
	sort.Strings(parts)
	return strings.Join(parts, ";")
}

// Parked counts the relevant goroutines whose innermost module frame
// contains the substring.
func (c Census) Parked(substr string) int {
	n := 0
	for _, g := range c.All {
		if g.Relevant && g.Blocked() && strings.Contains(g.Stack, substr) {
			n++
		}
	}
	return n
}

// Describe renders the relevant goroutines compactly (for witnesses).
func (c Census) Describe() []string {
	var out []string
	for _, g := range c.All {
		if g.Relevant {
			out = append(out, fmt.Sprintf("g%s [%s] %s", g.ID, g.State, compactStack(g.Stack)))
		}
	}
	return out
}

func compactStack(s string) string {
	var fr []string
	for _, ln := range strings.Split(s, "\n")[1:] {
		if strings.HasPrefix(ln, "\t") {
			continue
		}
		if i := strings.LastIndexByte(ln, '('); i >= 0 && !strings.HasPrefix(ln, "created by") {
			ln = ln[:i]
		}
		ln = strings.ReplaceAll(ln, ModulePath, "fun")
		fr = append(fr, ln)
		if len(fr) >= 8 {
			break
		}
	}
	return strings.Join(fr, " < ")
}

// Quiesce waits until the whole process (except the caller) is
// quiescent: every goroutine blocked, two consecutive censuses
// identical, and the logical clock unchanged between them. It returns
// the final census and ok=false if quiescence was not reached within
// the watchdog (which is an inconclusive outcome, never a verdict).
//
// Soundness relies on the scenario using no timers: a quiescent
// system without timers cannot move without a new stimulus.
func Quiesce(watchdog time.Duration) (Census, bool) {
	defer Progress.Add(1)
	deadline := time.Now().Add(watchdog)
	var prevSig string
	var prevClock int64 = -1
	for {
		for i := 0; i < 50; i++ {
			runtime.Gosched()
		}
		c := takeCensus()
		clk := Clock.Load()
		if c.AllBlocked() {
			sig := c.Signature()
			if sig == prevSig && clk == prevClock {
				return c, true
			}
			prevSig, prevClock = sig, clk
			// separate the two confirming snapshots
			for i := 0; i < 200; i++ {
				runtime.Gosched()
			}
			time.Sleep(time.Millisecond)
		} else {
			prevSig, prevClock = "", -1
			time.Sleep(200 * time.Microsecond)
		}
		if time.Now().After(deadline) {
			return c, false
		}
	}
}

// WaitUntil polls cond (with yields) until it is true or the watchdog
// expires. Used only for positive expectations: a met expectation is
// decided at once, an unmet one is handed to Quiesce for a verdict.
func WaitUntil(watchdog time.Duration, cond func() bool) bool {
	defer Progress.Add(1)
	deadline := time.Now().Add(watchdog)
	for i := 0; ; i++ {
		if cond() {
			return true
		}
		if i < 100 {
			runtime.Gosched()
		} else {
			time.Sleep(50 * time.Microsecond)
		}
		if (i < 100 && i%16 == 15 || i >= 100) && time.Now().After(deadline) {
			return cond()
		}
	}
}

// Await decides a positive expectation: it polls cond for up to
// `patience`; if the expectation is still unmet it waits for quiescence
// and evaluates cond once more (on a slow machine the expectation may be
// met late, which is not a violation). met=false with quiescent=true is
// the only outcome that proves the expectation can never be met;
// met=false with quiescent=false is inconclusive.
func Await(patience, watchdog time.Duration, cond func() bool) (met, quiescent bool, c Census) {
	if WaitUntil(patience, cond) {
		return true, false, Census{}
	}
	c, quiescent = Quiesce(watchdog)
	return cond(), quiescent, c
}

// Spinners samples the process for the given period and returns the
// goroutines of the module that were present and runnable (never
// parked) in every sample: code that keeps running instead of exiting
// or blocking. Used only after Quiesce has failed for its whole
// watchdog, as the bounded-progress reading of "the goroutine exits".
func Spinners(period time.Duration, samples int) []G {
	defer Progress.Add(1)
	var alive map[string]G
	for k := 0; k < samples; k++ {
		c := takeCensus()
		now := map[string]G{}
		for _, g := range c.All {
			if g.Relevant && !g.Blocked() && !strings.HasPrefix(g.State, "sleep") {
				if _, ok := alive[g.ID]; ok || k == 0 {
					now[g.ID] = g
				}
			}
		}
		alive = now
		if len(alive) == 0 {
			return nil
		}
		time.Sleep(period / time.Duration(samples))
	}
	out := make([]G, 0, len(alive))
	for _, g := range alive {
		out = append(out, g)
	}
	return out
}
