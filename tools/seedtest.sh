#!/bin/bash
# usage: tools/seedtest.sh <patch.diff> <ID> [tier]   — applies a seeded change to /repo, runs the check, reverts.
set -u
patch=$1; id=$2; tier=${3:-quick}
cd /repo || exit 3
if ! git diff --quiet; then echo "/repo has uncommitted changes, refusing"; exit 3; fi
git apply "$patch" || { echo "patch does not apply"; exit 3; }
cd /verif && ./vcheck.sh run "$id" --tier "$tier"; rc=$?
git -C /repo checkout -- . ; git -C /repo clean -fdq
echo "seedtest $patch $id $tier -> exit $rc"
exit $rc
