#!/bin/bash
# usage: tools/seedtest.sh <patch.diff> <ID> [tier]
# Applies a seeded change to a scratch worktree of /repo (never to /repo itself), runs the check against it
# through VERIF_REPO (outputs go to *-alt directories), and removes the worktree with its build output.
set -u
patch=$(readlink -f "$1"); id=$2; tier=${3:-quick}
wt=/tmp/wt/seedtest-$$-$id
git -C /repo worktree add -q --detach "$wt" HEAD || exit 3
if ! git -C "$wt" apply "$patch"; then echo "patch does not apply"; git -C /repo worktree remove --force "$wt"; exit 3; fi
cd /verif && VERIF_REPO="$wt" ./vcheck.sh run "$id" --tier "$tier"; rc=$?
git -C /repo worktree remove --force "$wt"; rm -rf "/verif/.build/$id-alt"
echo "seedtest $1 $id $tier -> exit $rc"
exit $rc
