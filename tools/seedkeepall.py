#!/usr/bin/env python3
"""usage: seedkeepall.py <needs.json> [name ...] — keeps every seed under /tmp/seed whose verify.txt confirms it
(demonstration fails with the change, passes without) through tools/seedkeep.py; prints the ones that are not confirmed."""
import json, os, subprocess, sys
needs = json.load(open(sys.argv[1]))
names = sys.argv[2:] or sorted(needs)
for n in names:
    v = "/tmp/seed/%s/verify.txt" % n
    t = open(v).read() if os.path.exists(v) else ""
    if "apply: ok" in t and "build: ok" in t and "demo with change: exit 1" in t and "demo without change: exit 0" in t:
        subprocess.run(["tools/seedkeep.py", n, n.split("-")[0], "n/a", "", "--"] + needs[n].split(), check=True)
    else:
        print("NOT CONFIRMED", n, t[-300:].replace("\n", " | "))
