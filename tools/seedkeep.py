#!/usr/bin/env python3
"""usage: seedkeep.py <seed-name> <property> <detected: yes|no|n/a> <check result line> -- <what it needs to manifest>
Copies a confirmed seeded change from /tmp/seed/<name> to /verif/seeded/<name>/ and writes meta.json."""
import sys, os, shutil, json, glob
name, prop, detected, result = sys.argv[1:5]
needs = " ".join(sys.argv[6:]) if len(sys.argv) > 6 else ""
src = "/tmp/seed/" + name
dst = "/verif/seeded/" + name
os.makedirs(dst, exist_ok=True)
for f in ["patch.diff", "notes.md", "verify.txt"] + [os.path.basename(p) for p in glob.glob(src + "/demo*")]:
    if os.path.exists(os.path.join(src, f)):
        shutil.copy(os.path.join(src, f), os.path.join(dst, f))
verify = open(os.path.join(src, "verify.txt")).read() if os.path.exists(os.path.join(src, "verify.txt")) else ""
meta = dict(property=prop, name=name, needs_to_manifest=needs,
            confirmed=dict(how="tools/seedverify.sh in a scratch worktree of /repo (removed afterwards): patch applies, builds, existing suite run twice with the change (failures listed are the timing-flaky tests that also fail on the clean tree), demonstration fails with the change and passes without",
                           log=verify.strip().split("\n")),
            check=dict(command="tools/seedtest.sh seeded/%s/patch.diff %s quick" % (name, prop), detected=detected, result=result))
json.dump(meta, open(os.path.join(dst, "meta.json"), "w"), indent=1)
print("kept", dst)
