#!/usr/bin/env python3
"""Regenerates /verif/MANIFEST.json from the table below (kept in one place so the manifest is always valid)."""
import json, os, subprocess
HERE = os.path.dirname(os.path.dirname(os.path.abspath(__file__)))
hook_commits = ["ac16435"]
C = {}
def chk(pid, level, text, note, technique, ref):
    C[pid] = dict(property_id=pid, quick_cmd="./vcheck.sh run %s --tier quick" % pid,
                  thorough_cmd="./vcheck.sh run %s --tier thorough" % pid,
                  evidence_file="/verif/evidence/%s.json" % pid,
                  replay_cmd_template="./vcheck.sh replay {path}", engine="vcheck",
                  level_claimed=dict(category=level, text=text, design_ref=ref), level_note=note, technique=technique)

TB = "Trusted: Go toolchain/runtime, the monitor's reference model (written from the documentation), the seeded generators; decides only the executions produced."

chk("C16", "exploration",
    "Reference-model runtime monitor in lock-step: seeded programs of List/Stack operations over every kind of handle; after every step all documented views are compared with a slice model. Exploration is the right level: the state space of pointer structures is unbounded, the oracle is exact per step.",
    TB + " Two recorded findings (Element.Swap, Stack Item.Remove) are reported as KNOWN-FINDING by signature.",
    "runtime monitoring: lock-step reference-model oracle over generated operation sequences", "DESIGN.md §5 C16")
chk("C17", "exploration",
    "Independent oracle over boundary-directed inputs: uid-tagged elements make permutation/stability decidable, adjacent-pair scan decides order and IsSorted, heap pops are checked exactly-once and non-decreasing; list usability after sort is re-checked structurally.",
    TB, "runtime monitoring: independent order/permutation oracle over generated inputs", "DESIGN.md §5 C17")

chk("C02", "exploration",
    "Reference-model runtime monitor: seeded operator trees of the order-preserving iterator operations are built from the real library and, independently, evaluated as pure functions over slices; every sink (ReadOne incl. calls after the first error, Slice, Count, Reduce, Contains, MarshalJSON) must agree, with injected skip/errors. Exploration: the space of trees/inputs is unbounded; the oracle per tree is exact.",
    TB + " Errors in a non-last operand of Join/Chain/Merge* are outside the asserted region (DESIGN 7a).",
    "runtime monitoring: differential oracle (library pipeline vs pure-function interpreter) over generated operator trees", "DESIGN.md §5 C02")
chk("C05", "exploration",
    "Linearizability monitor: many short concurrent histories of the real Queue recorded at the client boundary (logical clock, unique values, cancellations, Close) and checked offline with porcupine against a sequential bounded-FIFO model incl. the soft-quota/burst-credit rules; plus long lock-step scripts. Exploration: histories are sampled; each is decided exactly (Ok/Illegal/Unknown).",
    TB + " porcupine v1.3.0 is trusted; Unknown (timeout) is reported as inconclusive.",
    "runtime monitoring: recorded histories + porcupine linearizability checking against an executable sequential model", "DESIGN.md §5 C05")
chk("C06", "exploration",
    "Same instrument as C05 with the deque model: both ends, plain push on full fails without effect, Force push evicts exactly one item from the opposite end, Close semantics, context errors are no-ops; capacities 1/2/3/5, unlimited and QueueOptions trackers.",
    TB + " porcupine v1.3.0 is trusted; Unknown (timeout) is reported as inconclusive.",
    "runtime monitoring: recorded histories + porcupine linearizability checking against an executable sequential model", "DESIGN.md §5 C06")
chk("C12", "exploration",
    "Reference-model monitor over generated error-expression trees (Join/Wrap/%w/errors.Join/Stack-in-Stack/ParsePanic): a multiset-of-constituents model predicts nil-ness, identity, errors.Is/As, Unwind; concurrent Collector runs (also under the race detector in the thorough tier) check Len/Resolve/visibility of own Adds.",
    TB, "runtime monitoring: reference-model oracle over generated expression trees + concurrent collector driver under -race", "DESIGN.md §5 C12")
chk("C18", "exploration",
    "Lock-step reference model (map + order slice) for sequential Set scripts, and porcupine-checked concurrent histories of a synchronized Set (partitioned by key; unpartitioned with Len).",
    TB + " Equal is not compared across ordered/unordered sets (DESIGN 7i).",
    "runtime monitoring: lock-step reference model + porcupine linearizability checking of recorded histories", "DESIGN.md §5 C18")
chk("C19", "exploration",
    "Independent oracle: the exact order statistic of a sorted copy of the recorded multiset bounds every quantile, Min and Max within one bucket width; counts conserved; Export/Import and Merge round trips; boundary-directed shapes and values; any panic is a violation.",
    TB, "runtime monitoring: exact order-statistic oracle over boundary-directed generated histograms", "DESIGN.md §5 C19")

DQ = " Liveness clauses are decided only at quiescence of timer-free scenarios (goroutine census); a watchdog expiry without quiescence is INCONCLUSIVE, never a verdict."
chk("C01", "exploration",
    "Exactly-once monitor: unique ids through 16 fan-out/fan-in constructs (incl. fresh pipelines first advanced by several goroutines at once) under speed profiles and GOMAXPROCS regimes; multiset(invocations)=multiset(output)=input, exact sequence for Buffer/single worker.",
    TB + DQ, "runtime monitoring: conservation / exactly-once oracle over recorded invocation and output events", "DESIGN.md §5 C01")
chk("C03", "fault_enumeration",
    "Fault enumeration: the whole classification table (3 flags x ExcludedErrors x 12 failure kinds) for 5 constructs is enumerated in every run; positions, workers, collectors, speeds are drawn per cell. Oracle from the statement: reported iff reportable (errors.Is), exactly-once in continue modes, abort bound by stamps.",
    TB + " An abort-bound exceedance is confirmed by re-execution before it is reported (the first-failure stamp is taken inside the user function)." + DQ,
    "runtime monitoring: fault injection over an enumerated configuration table with event-stamp oracles", "DESIGN.md §5 C03")
chk("C04", "exploration",
    "Leak / termination monitor: construct x cut point x stop mode scenarios, one per process at a time; after the stop the process is brought to quiescence and the goroutine census must hold no goroutine of the module; batch mode amortises the census over 150 early-stopped pipelines to reach rare sender races.",
    TB + DQ, "runtime monitoring: goroutine census at quiescence (deadlock/leak detector)", "DESIGN.md §5 C04")
chk("C07", "exploration",
    "Deadlock-at-quiescence monitor for every blocking Queue/Deque operation: parked operations + stimulus scripts; at quiescence an operation whose condition holds (non-empty / room / closed / cancelled) and is still parked can never return; hook scenarios land cancel/enabling op/Close inside the check-then-park window.",
    TB + DQ, "runtime monitoring: goroutine census at quiescence + build-tag yield-point scripting", "DESIGN.md §5 C07")
chk("C08", "exploration",
    "Broker delivery monitor: published/received id sequences per subscriber; subset + no-duplicate for every configuration, completeness for lossless ones (decided at quiescence), per-publisher and common order with one dispatch worker; delays injected in a wrapping distributor.",
    TB + DQ, "runtime monitoring: exactly-once / ordering oracle over recorded publish and receive events", "DESIGN.md §5 C08")
chk("C09", "exploration",
    "Broker progress/shutdown monitor with a counting distributor: progress under bursts for every back-end, shutdown at four stop points (Wait returns, no broker goroutine in the census, calls honour cancellation), Stats calls whose context ends between request and reply, Stop inside the dispatcher's wait window (hook).",
    TB + DQ, "runtime monitoring: goroutine census at quiescence + conservation counters + yield-point scripting", "DESIGN.md §5 C09")
chk("C14", "exploration",
    "WaitGroup monitor: happens-before stamps decide 'Wait never returns early'; quiescence decides 'every waiter is released'; hook scenarios and a spin-aligned entry race place the last Done / cancel inside Wait's check-then-park window; counter arithmetic incl. the negative-Add panic.",
    TB + DQ, "runtime monitoring: happens-before stamp oracle + goroutine census at quiescence + yield-point scripting", "DESIGN.md §5 C14")
chk("C15", "exploration",
    "Wrapper-contract monitor: execution counter, max-concurrency gauge and end stamps inside the wrapped function; Once/Limit/Lock flavours under contention, Retry against scripted outcomes, hook/Join order logs, waiter-vs-background stamps for Launch/Signal/Background/StartGroup.",
    TB + DQ, "runtime monitoring: counters, concurrency gauge and happens-before stamps inside the wrapped function", "DESIGN.md §5 C15")
chk("C20", "exploration",
    "Iterator monitor: controller scripts interleave iterator steps (own goroutine, may park) with add/remove/close/cancel; sequence oracle (only added ids, no duplicates, exact order absent removals, EOF after Close); a step that must return and has not is decided at quiescence; hook scenarios land Add/cancel/remove-then-add inside the tail-check-then-park window.",
    TB + DQ, "runtime monitoring: sequence oracle + goroutine census at quiescence + yield-point scripting", "DESIGN.md §5 C20")

chk("C10", "fault_enumeration",
    "Fault enumeration over the service lifecycle table ({absent, ok, error, panic}^4 x end mode x timing x callers = 4608 cells; every 7th cell in quick, all cells x 20 in thorough) with a stamped call log: phase counts and order, exactly one nil Start, Wait completeness and timing, Running() after Wait; hook cells finish the service inside Start's two windows.",
    TB + DQ + " Absent Run: only ordering and termination (DESIGN 7e).",
    "runtime monitoring: fault injection over an enumerated table + stamped call-log oracle + yield-point scripting", "DESIGN.md §5 C10")
chk("C11", "exploration",
    "Invocation-counter monitor for Orchestrator (services fresh / externally running / finished / being started concurrently), Group, WorkerPool / HandlerWorkerPool and the Cleanup service: started/ran exactly once, awaited (stamps), failures found by errors.Is; unmet 'gets started / runs' expectations decided at quiescence.",
    TB + DQ + " Externally owned services end before the orchestrator is shut down (DESIGN 7f).",
    "runtime monitoring: per-unit invocation counters and happens-before stamps + goroutine census at quiescence", "DESIGN.md §5 C11")
chk("C13", "exploration",
    "Go race detector over a method-pair matrix of every documented concurrency-safe type (676 pairs): 2-4 goroutines per pair on one shared instance; reports are parsed from the detector log, deduplicated, and count when both accesses are in the module (or in probe state that only a library lock protects). Thorough adds repetitions and a go1.26.8 build.",
    "Trusted: the Go race detector (it reports only real unsynchronised access pairs among those executed). Decides only accesses the drivers produce; the static lock-set reading is not decided.",
    "sanitizer: Go race detector (-race) under a concurrent method-pair driver", "DESIGN.md §5 C13")

ALL = ["C%02d" % i for i in range(1, 21)]
pending = "monitor for this property is not built yet in this revision of /verif (planned in DESIGN.md §5); nothing is claimed for it"
manifest = dict(
    version=1,
    setup_cmd="./vcheck.sh build",
    hooks=dict(guard="verif (Go build tag)",
               enable="monitor binaries are built with `go build -tags verif` (race flavours add -race) against /repo through the replace directive in /verif/go.mod; fun.VerifSetHook installs a handler for the internal.VerifPoint yield points",
               baseline_off_cmd="cd /repo && GOFLAGS=-mod=mod GOPROXY=off GOSUMDB=off GOTOOLCHAIN=local go test -json -vet=off -count=1 -timeout 25m ./...",
               source_commits=hook_commits, add_only=True),
    engines=[dict(name="vcheck", path="/verif/cmd/vcheck", serves_properties=sorted(C),
                  kind_free_text="driver: rebuilds cmd/vmon (monitors in /verif/mon, instruments in /verif/kit) from /repo's working tree, shards seeded case lists over child processes under watchdogs, reads event streams and race-detector logs, matches known findings, writes evidence")],
    checks=[C[k] for k in sorted(C)],
    notes="Technique family: runtime monitoring and sanitizers. Exit codes: 0 held on everything explored (KNOWN-FINDING lines may be printed), 1 VIOLATION, 2 INCONCLUSIVE (watchdog / too little observed; never folded into the others). VERIF_SEED and VERIF_TIER are honoured.",
    not_applicable=[dict(property_id=p, reason=pending) for p in ALL if p not in C],
)
json.dump(manifest, open(os.path.join(HERE, "MANIFEST.json"), "w"), indent=1)
print("wrote MANIFEST.json with", len(C), "checks")
