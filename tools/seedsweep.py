#!/usr/bin/env python3
"""Runs every kept seeded change (seeded/<name>/patch.diff) against the check(s) that should catch it, in a scratch
worktree (tools/seedtest.sh), and records the outcome in seeded/<name>/meta.json and seeded/RESULTS.md.
usage: tools/seedsweep.py [tier] [name ...]"""
import json, os, subprocess, sys, re, glob
os.chdir(os.path.dirname(os.path.dirname(os.path.abspath(__file__))))
tier = sys.argv[1] if len(sys.argv) > 1 else "quick"
names = sys.argv[2:] or sorted(os.path.basename(os.path.dirname(p)) for p in glob.glob("seeded/*/meta.json"))
EXTRA = {"C04-1": ["C14"], "C09-3": ["C14"], "C09-4": ["C06"], "C20-6": ["C07"], "C10-6": ["C14"], "C08-6": ["C06"], "C17-5": ["C13", "C18"], "C18-4": ["C13"], "C18-6": ["C13"],
         "C01-8": ["C03"], "C08-7": ["C06"], "C10-8": ["C12"], "C15-7": ["C14"], "C04-8": ["C14"], "C09-7": ["C07"],
         "C01-10": ["C03"], "C10-9": ["C12"], "C10-10": ["C12"]}   # changes whose mechanism lies in another property's code
rows = []
for n in names:
    meta = json.load(open("seeded/%s/meta.json" % n))
    checks = [meta["property"]] + EXTRA.get(n, [])
    only = os.environ.get("SEEDSWEEP_ONLY", "")   # "own": the property's check; "extra": the checks that own the mechanism
    if only == "own":
        checks = checks[:1]
    elif only == "extra":
        checks = checks[1:]
        if not checks:
            continue
    prev = {r["check"]: r for r in meta.get("check", {}).get("results", [])} if only else {}
    results = []
    for cid in checks:
        p = subprocess.run(["tools/seedtest.sh", "seeded/%s/patch.diff" % n, cid, tier], capture_output=True, text=True)
        out = p.stdout + p.stderr
        sigs = sorted(set(re.findall(r"signature: (\S+)", out)))
        summ = re.findall(r"^%s %s: .*$" % (cid, tier), out, re.M)
        results.append(dict(check=cid, tier=tier, exit=p.returncode, detected=(p.returncode == 1), signatures=sigs[:6], summary=summ[-1] if summ else ""))
        print(n, cid, "exit", p.returncode, sigs[:3], flush=True)
    if only:
        for r in results:
            prev[r["check"]] = r
        results = [prev[k] for k in ([meta["property"]] + EXTRA.get(n, [])) if k in prev]
    meta["check"] = dict(command="tools/seedtest.sh seeded/%s/patch.diff <ID> %s" % (n, tier), results=results,
                         detected="yes" if any(r["detected"] for r in results) else "no")
    json.dump(meta, open("seeded/%s/meta.json" % n, "w"), indent=1)
# table over all seeds
lines = ["# Seeded changes and the checks that catch them", "",
         "Each change was written by a sub-agent that saw only the property text and a scratch worktree, confirmed with `tools/seedverify.sh`,",
         "and run against the registered check with `tools/seedtest.sh` (scratch worktree + `VERIF_REPO`; `/repo` is never modified).", "",
         "| change | property | needs to manifest | check | tier | exit | signatures |", "|---|---|---|---|---|---|---|"]
for mp in sorted(glob.glob("seeded/*/meta.json")):
    m = json.load(open(mp))
    for r in m.get("check", {}).get("results", []):
        lines.append("| %s | %s | %s | %s | %s | %s | %s |" % (m["name"], m["property"], m["needs_to_manifest"].replace("|", "/"), r["check"], r["tier"],
                     {1: "1 (VIOLATION)", 0: "0 (missed)", 2: "2 (inconclusive)"}.get(r["exit"], r["exit"]), "<br>".join(r["signatures"][:3])))
open("seeded/RESULTS.md", "w").write("\n".join(lines) + "\n")
