#!/bin/bash
# usage: tools/runall.sh [quick|thorough] [seed]  — runs every registered check sequentially and prints a summary table
tier=${1:-quick}; seed=${2:-}
cd "$(dirname "$0")/.."
[ -n "$seed" ] && export VERIF_SEED=$seed
rc_all=0
for id in $(python3 -c "import json;print(' '.join(c['property_id'] for c in json.load(open('MANIFEST.json'))['checks']))"); do
  out=$(./vcheck.sh run $id --tier $tier 2>&1); rc=$?
  echo "$id rc=$rc $(echo "$out" | grep -E "^$id $tier" | cut -c1-160)"
  if [ $rc -ne 0 ]; then rc_all=1; echo "$out" | grep -E "VIOLATION|INCONCLUSIVE|signature|detail" | head -8 | cut -c1-300; fi
done
exit $rc_all
