#!/bin/bash
# usage: tools/seedverify.sh <seed-name e.g. C16-1>
# Confirms a seeded change independently in a scratch worktree: applies, builds, existing suite passes,
# demonstration fails with the change and passes without. Writes /tmp/seed/<name>/verify.txt
set -u
name=$1
src=/tmp/seed/$name
wt=/tmp/wt/verify-$name
export GOFLAGS=-mod=mod GOPROXY=off GOSUMDB=off GOTOOLCHAIN=local
out=$src/verify.txt
: > $out
git -C /repo worktree add -q --detach $wt HEAD || exit 3
cd $wt
demo=$(ls $src/demo*_test.go $src/demo*.go 2>/dev/null | head -1)
place=$(head -1 "$demo" | sed -n 's|^// place in: *||p' | awk '{print $1}' | tr -d '(;,')
[ -z "$place" ] && place=.
case "$place" in .*|module*|root*) place=. ;; esac
echo "demo=$demo place=$place" >> $out
git apply $src/patch.diff && echo "apply: ok" >> $out || { echo "apply: FAIL" >> $out; }
go build ./... && echo "build: ok" >> $out || echo "build: FAIL" >> $out
for i in $(seq 1 ${SEEDVERIFY_RUNS:-2}); do
  go test -p ${SEEDVERIFY_P:-8} -vet=off -count=1 -timeout 25m ./... > $src/verify-suite$i.log 2>&1
  fails=$(grep -E '^(--- FAIL|FAIL)' $src/verify-suite$i.log | tr '\n' ' ')
  echo "suite run $i with change: ${fails:-all ok}" >> $out
done
RUN=$(grep -oE "^func Test[A-Za-z0-9_]*" "$demo" | awk '{print $2}' | paste -sd"|")
cp "$demo" $place/zz_seed_demo_test.go
TAGS=""; grep -q "go:build verif" "$demo" && TAGS="-tags verif"
head -1 "$demo" | grep -q -- "-race" && TAGS="$TAGS -race"
(cd $place && go test $TAGS -vet=off -count=1 -timeout 10m -run "^($RUN)\$" . > $src/verify-demo-with.log 2>&1); echo "demo with change: exit $?" >> $out
git checkout -q -- . 
(cd $place && go test $TAGS -vet=off -count=1 -timeout 10m -run "^($RUN)\$" . > $src/verify-demo-without.log 2>&1); echo "demo without change: exit $?" >> $out
cd /; git -C /repo worktree remove --force $wt
cat $out
