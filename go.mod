module verif

go 1.23

require (
	github.com/anishathalye/porcupine v1.3.0
	github.com/tychoish/fun v0.0.0
)

replace github.com/tychoish/fun => /repo
