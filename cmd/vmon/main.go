// vmon is the child process of a check: it runs the monitor of one
// property on one shard of the case list and writes a JSONL stream.
package main

import (
	"flag"
	"fmt"
	"os"
	"strconv"
	"strings"
	"time"

	"verif/kit"
	"verif/mon"
)

func main() {
	prop := flag.String("prop", "", "property id")
	seed := flag.Uint64("seed", 1, "seed")
	tier := flag.String("tier", "quick", "quick|thorough")
	shard := flag.Int("shard", 0, "shard index")
	nshards := flag.Int("nshards", 1, "number of shards")
	build := flag.String("build", "plain", "build label")
	out := flag.String("out", "", "output jsonl")
	replay := flag.Int64("replay", -1, "case index to replay")
	reps := flag.Int("reps", 1, "replay repetitions")
	flag.Parse()
	m, ok := mon.Registry[*prop]
	if !ok {
		fmt.Fprintln(os.Stderr, "unknown property", *prop)
		os.Exit(3)
	}
	r, err := kit.NewRun(*prop, *seed, *tier, *shard, *nshards, *build, *out, *replay)
	if err != nil {
		fmt.Fprintln(os.Stderr, err)
		os.Exit(3)
	}
	r.Reps = *reps
	if k := os.Getenv("VERIF_KNOWN"); k != "" {
		r.Known = strings.Split(k, ",")
	}
	stall := 90 * time.Second
	if *tier == "thorough" {
		stall = 180 * time.Second
	}
	if v, err := strconv.Atoi(os.Getenv("VERIF_STALL")); err == nil && v > 0 {
		stall = time.Duration(v) * time.Second
	}
	r.WatchStall(stall)
	for i := 0; i < *reps; i++ {
		m(r)
	}
	r.Finish()
}
