package main

func init() {
	props["C16"] = propSpec{
		level: "exploration",
		rule: "seeded PRNG programs of 1-40 operations over two Lists (and 1-30 over a Stack) with operands drawn from every handle ever returned " +
			"(attached, detached, dropped, root, nil, never-attached); after EVERY operation forward walk, reversed backward walk, Slice(), both iterators, " +
			"Len(), and In()/Ok()/Value() of every handle are compared with a slice model written from the documentation. " +
			"distinct_nontrivial = distinct sets of operation kinds (>=3 kinds) that a completed program exercised, per container",
		assumptions:   append([]string{"Swap with the root element (documented wrap-around) and Stack.Detach/Attach are not modelled and not generated", "walks are capped at len+3 steps so a cycle is reported instead of hanging"}, commonAssumptions...),
		floorEvals:    2000,
		floorDistinct: 20,
		quick:         []buildSpec{plain(8)},
		thorough:      []buildSpec{plain(16)},
	}
	props["C17"] = propSpec{
		level: "exploration",
		rule: "boundary-directed and random element sequences (empty, singleton, duplicates, sorted, reversed, negatives/zero, single inversion at the first/last pair) x comparators " +
			"(native, strict reverse, cmp.Reverse, key-projected); elements carry a unique id so permutation and stability are decidable; oracle is an independent adjacent-pair scan. " +
			"distinct_nontrivial = distinct (operation, input class, comparator, length class) with length >= 2",
		assumptions:   commonAssumptions,
		floorEvals:    2000,
		floorDistinct: 20,
		quick:         []buildSpec{plain(8)},
		thorough:      []buildSpec{plain(16)},
	}
}
