package main

func init() {
	props["C16"] = propSpec{
		level: "exploration",
		rule: "seeded PRNG programs of 1-40 operations over two Lists (and 1-30 over a Stack) with operands drawn from every handle ever returned " +
			"(attached, detached, dropped, root, nil, never-attached); after EVERY operation forward walk, reversed backward walk, Slice(), both iterators, " +
			"Len(), and In()/Ok()/Value() of every handle are compared with a slice model written from the documentation. " +
			"distinct_nontrivial = distinct sets of operation kinds (>=3 kinds) that a completed program exercised, per container",
		assumptions:   append([]string{"Swap with the root element (documented wrap-around) and Stack.Detach/Attach are not modelled and not generated", "walks are capped at len+3 steps so a cycle is reported instead of hanging"}, commonAssumptions...),
		floorEvals:    2000,
		floorDistinct: 20,
		quick:         []buildSpec{plain(8)},
		thorough:      []buildSpec{plain(16)},
	}
	props["C17"] = propSpec{
		level: "exploration",
		rule: "boundary-directed and random element sequences (empty, singleton, duplicates, sorted, reversed, negatives/zero, single inversion at the first/last pair) x comparators " +
			"(native, strict reverse, cmp.Reverse, key-projected); elements carry a unique id so permutation and stability are decidable; oracle is an independent adjacent-pair scan; heaps built by pushes, by NewHeapFromIterator, and by NewHeapFromIterator over a source that fails part-way (the heap handed back is used further). " +
			"distinct_nontrivial = distinct (operation, input class, comparator, length class) with length >= 2",
		assumptions:   commonAssumptions,
		floorEvals:    2000,
		floorDistinct: 20,
		quick:         []buildSpec{plain(8)},
		thorough:      []buildSpec{plain(16)},
	}
}

func init() {
	props["C18"] = propSpec{
		level: "exploration",
		rule: "(a) seeded scripts of 1-35 operations over two Sets (ordered/unordered, a third of the unordered ones built by NewSetFromSlice; after a sort of one of them also mixed, incl. Extend from an ordered source into an unordered set, synchronized or not, value domain 6-8 to force collisions, delete-then-re-add, delete-absent) " +
			"checked in lock-step against a map+order-slice model after every operation (Len, Check over the domain, iterator multiset/order, AddCheck/DeleteCheck results, Equal, JSON round trip, Sort*); " +
			"(b) concurrent histories of a synchronized set (2-4 clients x 3-8 ops over 1-3 keys, GOMAXPROCS 1/2/4/16) recorded at the client boundary and checked with porcupine against the set model " +
			"(partitioned by key; unpartitioned when Len is in the history). distinct_nontrivial = distinct (orderedness, synchronized, set of >=3 operation kinds) for scripts plus distinct (config) of histories with >=2 overlapping operation pairs",
		assumptions:   append([]string{"Equal is not compared across ordered/unordered sets (DESIGN 7i)"}, commonAssumptions...),
		floorEvals:    2000,
		floorDistinct: 20,
		quick:         []buildSpec{plain(8)},
		thorough:      []buildSpec{plain(16)},
	}
}

func init() {
	props["C19"] = propSpec{
		level: "exploration",
		rule: "seeded (min,max,sigfigs) shapes (min arbitrary / power of two up to 2^12, max on and around subBucketCount*2^k boundaries, powers of two, up to 2^40, sigfigs 1..5) x multisets that over-sample min, max, " +
			"powers of two +-1, bucket and sub-bucket boundaries +-1 and heavy duplicates x quantiles {25,50,90,99,99.9,100,random,tiny}; oracle = exact order statistic of a sorted copy. " +
			"Every third case is a session: 4-44 steps of RecordValue / RecordValues / RecordCorrectedValue (interval inside the range; the documented back-filled values join the model) / Reset / record above the range / query, " +
			"continuing on Import(Export(h)) and on New(shape).Merge(h) copies, judged by the same oracle after every query step. " +
			"distinct_nontrivial = distinct (sigfigs, bit-length of min, bit-length of max, max-is-power-of-two, size class) resp. (session, shape classes, set of step kinds)",
		assumptions:   append([]string{"rank of a quantile is computed with the documented rounding round(q/100*N); quantiles of rank 0 are not judged"}, commonAssumptions...),
		floorEvals:    500,
		floorDistinct: 20,
		quick:         []buildSpec{plain(12)},
		thorough:      []buildSpec{plain(16)},
	}
}
