package main

func init() {
	props["C12"] = propSpec{
		level: "exploration",
		rule: "seeded expression trees (depth <= 5, fan-out <= 4) of ers.Join / ers.Wrap / fmt.Errorf(%w) / errors.Join / Stack-in-Stack / ParsePanic / Wrapf / WithRecoverCall, WrapRecoverCall, WithRecoverDo / WithTime over leaves {ers.Error constants, errors.New pointers, comparable struct errors, " +
			"typed pointer errors, shared sentinels, nil}, incl. operands that reach Join inside a foreign multi-error offering Unwind() []error with unset slots and nested aggregates; a multiset-of-constituents model written from the documentation predicts nil-ness, identity for a single plain error, errors.Is for every leaf and not for unrelated sentinels, " +
			"errors.As for typed leaves, the Unwind multiset and (flat joins) newest-first order; plus concurrent erc.Collector runs (2-8 goroutines adding unique errors, nils, joins and %w wraps interleaved with Len/Resolve/Iterator/HasErrors, and resolvers that keep calling Resolve while the adders work); sequential Collector sessions that use every entry point (Add, Handler, Check, Collect, When, Recover, WithRecoverCall/Do, RecoverHook, Consume, Stream) with looks (Resolve, Future, Len, Iterator) in between, incl. adding an error whose inspection panics (a typed-nil multi-error): the collector must stay usable (decided at quiescence). " +
			"distinct_nontrivial = distinct tree shapes (operator nesting with leaf/nil positions) having >= 2 constituents, plus distinct collector configurations",
		assumptions:   append([]string{"an empty *ers.Stack (non-nil value that reports Ok) is not used as an operand", "Unwind order is only asserted for flat joins of plain leaves (DESIGN 7g)"}, commonAssumptions...),
		floorEvals:    5000,
		floorDistinct: 50,
		quick:         []buildSpec{plain(8)},
		thorough:      []buildSpec{plain(16), race(8)},
	}
}
