package main

func init() {
	props["C10"] = propSpec{
		level: "fault_enumeration",
		rule: "the fault table {absent, ok, error, panic}^4 for Run/Shutdown/Cleanup/ErrorHandler x end mode {Run returns, Close, parent cancel} x {end stimulus after / racing Start} x concurrent Start+Wait(+Close) callers {1,4,16} = 4608 cells: " +
			"quick runs every 7th cell (offset by the seed), thorough all cells x 20 schedules (GOMAXPROCS 1/2/4/16); plus hook cells (service finishes at the `launched` / `checked` yield points of Start). " +
			"Oracle over a stamped call log: Run <= 1, exactly one nil Start (others AlreadyStarted/Returned), Shutdown once iff set and only after the context ended, Cleanup once after Run and Shutdown ended, ErrorHandler <= 1 after Cleanup with a non-nil argument, " +
			"every Wait returns after all three ended with errors.Is for every returned error and ErrRecoveredPanic iff a phase panicked, nil otherwise; Running() false after Wait and at quiescence. distinct_nontrivial = distinct cells decided",
		assumptions:   append([]string{"absent Run (nil function): only ordering and termination are asserted (DESIGN 7e)", "an ErrorHandler panic may or may not be part of Wait's result (Wait's fast path does not wait for the handler)"}, commonAssumptions...),
		floorEvals:    300,
		floorDistinct: 200,
		quick:         []buildSpec{plain(8)},
		thorough:      []buildSpec{plain(16)},
	}
}
