package main

func init() {
	props["C10"] = propSpec{
		level: "fault_enumeration",
		rule: "the fault table {absent, ok, error, panic}^4 for Run/Shutdown/Cleanup/ErrorHandler x end mode {Run returns, Close, parent cancel} x {end stimulus after / racing Start} x concurrent Start+Wait(+Close) callers {1,4,16} = 4608 cells: " +
			"quick runs every 7th cell (offset by the seed), thorough all cells x 60 schedules (GOMAXPROCS 1/2/4/16); plus hook cells (service finishes at the `launched` / `checked` yield points of Start) and start races (400 fresh services per case, 2-6 observers calling Wait from before Start: a Wait that answers anything but ErrServiceNotStarted before the stamp taken ahead of Close returned while Run was running); the value a failing phase hands back is the error itself, a %w wrapper, the cause taken out of an annotated error with errors.Unwrap (an interior node of the library's aggregate), or a Join. " +
			"Oracle over a stamped call log: Run <= 1, exactly one nil Start (others AlreadyStarted/Returned), Shutdown once iff set and only after the context ended, Cleanup once after Run and Shutdown ended, ErrorHandler <= 1 after Cleanup with a non-nil argument, " +
			"every Wait returns after all three ended with errors.Is for every returned error and ErrRecoveredPanic iff a phase panicked, nil otherwise; Running() false after Wait and at quiescence. distinct_nontrivial = distinct cells decided",
		assumptions:   append([]string{"absent Run (nil function): only ordering and termination are asserted (DESIGN 7e)", "an ErrorHandler panic may or may not be part of Wait's result (Wait's fast path does not wait for the handler)"}, commonAssumptions...),
		floorEvals:    300,
		floorDistinct: 200,
		quick:         []buildSpec{plain(8)},
		thorough:      []buildSpec{plain(16)},
	}
}

func init() {
	props["C11"] = propSpec{
		level: "exploration",
		rule: "four seeded scenario families, stamped invocation counters per service/job: (a) Orchestrator - 0-12 services in state {fresh, externally running, already finished} x outcome {ok, error, panic, block-until-cancel} added before/after Start from 1-4 goroutines; " +
			"every fresh service gets started (unmet => decided at quiescence), Run <= 1 each, Wait returns after every service ended and satisfies errors.Is for every failure; (b) Group - 0-8 members: each started once, no member context ends before the group is ended, all awaited, failures in Wait; " +
			"(c) WorkerPool / HandlerWorkerPool - 0-40 jobs, 1-8 workers, unlimited or bounded queue, jobs added before/after Start from several goroutines: accepted jobs run exactly once while the pool keeps running, refused ones never, failures reach Wait or the handler; " +
			"(d) Cleanup service - 0-40 functions added from several goroutines, shutdown immediately after the last Add or after quiescence, by Close or parent cancel: each runs exactly once, after the shutdown began, failures in Wait. " +
			"distinct_nontrivial = distinct (family, size class, adders, state/outcome mix or options, GOMAXPROCS) with >= 2 units",
		assumptions:   append([]string{"externally started services end on their own before the orchestrator is shut down (DESIGN 7f)", "pools are closed only after quiescence; Cleanup uses timeout 0 (no timers)"}, commonAssumptions...),
		floorEvals:    200,
		floorDistinct: 60,
		quick:         []buildSpec{plain(8)},
		thorough:      []buildSpec{plain(16)},
	}
}
