package main

import (
	"os"
	"sort"
	"strings"
)

const modulePath = "github.com/tychoish/fun"

type raceBlock struct {
	text         string
	sig          string
	bothInModule bool
}

// parseRaceLog splits a race-detector log into report blocks and, for
// each, finds the innermost non-runtime frame of the two access stacks.
// A block counts against the library only when both accesses happen in
// module code; the signature is the pair of those frames with line
// numbers stripped (DESIGN 3.4).
func parseRaceLog(path string) []raceBlock {
	b, err := os.ReadFile(path)
	if err != nil {
		return nil
	}
	var out []raceBlock
	seen := map[string]bool{}
	for _, blk := range strings.Split(string(b), "==================") {
		if !strings.Contains(blk, "WARNING: DATA RACE") {
			continue
		}
		sections := strings.Split(strings.TrimSpace(blk), "\n\n")
		var access []string
		for _, sec := range sections {
			lines := strings.Split(strings.TrimSpace(sec), "\n")
			if len(lines) == 0 {
				continue
			}
			h := lines[0]
			if strings.HasPrefix(h, "WARNING: DATA RACE") && len(lines) > 1 {
				lines = lines[1:]
				h = lines[0]
			}
			isAccess := (strings.Contains(h, "rite at ") || strings.Contains(h, "ead at ")) && strings.Contains(h, " by ")
			if !isAccess {
				continue
			}
			access = append(access, innermostUserFrame(lines[1:]))
		}
		if len(access) < 2 {
			continue
		}
		// state that only a library lock protects (the monitor's guardedTouch /
		// guardedRead helpers) counts as library state: a race there means a
		// Lock/Once/Limit wrapper failed to exclude
		inLib := func(fn string) bool {
			return strings.HasPrefix(fn, modulePath) || strings.Contains(fn, "guardedTouch") || strings.Contains(fn, "guardedRead")
		}
		both := inLib(access[0]) && inLib(access[1])
		pair := []string{shortFn(access[0]), shortFn(access[1])}
		sort.Strings(pair)
		sig := pair[0] + "~" + pair[1]
		if seen[sig] {
			continue
		}
		seen[sig] = true
		out = append(out, raceBlock{text: clip(strings.TrimSpace(blk), 6000), sig: sig, bothInModule: both})
	}
	return out
}

func innermostUserFrame(lines []string) string {
	for _, ln := range lines {
		if strings.HasPrefix(ln, "      ") || strings.HasPrefix(ln, "\t") { // file:line
			continue
		}
		fn := strings.TrimSpace(ln)
		if i := strings.LastIndexByte(fn, '('); i >= 0 {
			fn = fn[:i]
		}
		if fn == "" || strings.HasPrefix(fn, "runtime.") || strings.HasPrefix(fn, "internal/") ||
			strings.HasPrefix(fn, "sync.") || strings.HasPrefix(fn, "sync/atomic.") {
			continue
		}
		return fn
	}
	return ""
}

func shortFn(fn string) string {
	fn = strings.TrimPrefix(fn, modulePath)
	fn = strings.TrimPrefix(fn, "/")
	// strip generic instantiation noise
	for {
		i := strings.Index(fn, "[")
		j := strings.Index(fn, "]")
		if i < 0 || j < i {
			break
		}
		fn = fn[:i] + fn[j+1:]
	}
	return fn
}
