package main

import "time"

type buildSpec struct {
	flavour string // plain | race | race126
	shards  int
	wdQuick time.Duration
	wdThor  time.Duration
}

func (b buildSpec) watchdog(tier string) time.Duration {
	if tier == "thorough" {
		return b.wdThor
	}
	return b.wdQuick
}

type propSpec struct {
	level         string
	rule          string
	assumptions   []string
	floorEvals    int64
	floorDistinct int
	quick         []buildSpec
	thorough      []buildSpec
}

func (p propSpec) builds(tier string) []buildSpec {
	if tier == "thorough" {
		return p.thorough
	}
	return p.quick
}

func plain(shards int) buildSpec {
	return buildSpec{"plain", shards, 6 * time.Minute, 40 * time.Minute}
}
func race(shards int) buildSpec {
	return buildSpec{"race", shards, 8 * time.Minute, 50 * time.Minute}
}
func race126(shards int) buildSpec {
	return buildSpec{"race126", shards, 8 * time.Minute, 50 * time.Minute}
}

var commonAssumptions = []string{
	"decides only the executions produced by this run (seeded case list x schedules the Go runtime happened to choose under the perturbations applied)",
	"the monitor binary is rebuilt from /repo's working tree with -tags verif; the Go toolchain, runtime and race detector are trusted",
}

// props is filled by the init functions in props_*.go
var props = map[string]propSpec{}
