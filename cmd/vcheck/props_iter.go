package main

func init() {
	props["C02"] = propSpec{
		level: "exploration",
		rule: "seeded operator trees (depth <= 5) over 13 source kinds, 17 unary and 3 n-ary order-preserving operators and 7 sinks; inputs of length 0..6 (some to 40) over {-2..3} so duplicates and zeros are frequent; " +
			"a third of the trees get one injected ErrIteratorSkip / plain / wrapped error at the first, middle, last or a random position of a user function (non-skip errors only in the last operand of concatenations, DESIGN 7a); " +
			"oracle = the same tree evaluated as pure functions over slices. distinct_nontrivial = distinct tree shapes (operator nesting) with >= 2 operators and a non-empty expected output",
		assumptions:   append([]string{"an error in a non-last operand of Join/Chain/Merge* is outside the asserted region (DESIGN 7a)"}, commonAssumptions...),
		floorEvals:    3000,
		floorDistinct: 100,
		quick:         []buildSpec{plain(8)},
		thorough:      []buildSpec{plain(16)},
	}
}
