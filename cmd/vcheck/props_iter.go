package main

func init() {
	props["C02"] = propSpec{
		level: "exploration",
		rule: "seeded operator trees (depth <= 5) over 13 source kinds, 17 unary and 3 n-ary order-preserving operators and 7 sinks; inputs of length 0..6 (some to 40) over {-2..3} so duplicates and zeros are frequent; " +
			"a third of the trees get one injected ErrIteratorSkip / plain / wrapped error at the first, middle, last or a random position of a user function (non-skip errors only in the last operand of concatenations, DESIGN 7a); " +
			"oracle = the same tree evaluated as pure functions over slices. distinct_nontrivial = distinct tree shapes (operator nesting) with >= 2 operators and a non-empty expected output",
		assumptions:   append([]string{"an error in a non-last operand of Join/Chain/Merge* is outside the asserted region (DESIGN 7a)"}, commonAssumptions...),
		floorEvals:    3000,
		floorDistinct: 100,
		quick:         []buildSpec{plain(8)},
		thorough:      []buildSpec{plain(16)},
	}
}

func init() {
	props["C14"] = propSpec{
		level: "exploration",
		rule: "(a) seeded rounds re-using one WaitGroup 1-5 times: 1-64 workers started through Add/Inc/Launch/DoTimes/StartGroup/Operation.Add, 1-8 waiters (Wait or Worker) entering before/during/after the Dones, " +
			"worker speed profiles, GOMAXPROCS 1/2/4/16, optionally cancelling a strict subset of the waiters while the counter is positive; safety by happens-before stamps (worker stamps before Done, waiter after Wait returns), " +
			"liveness as bounded progress at quiescence (goroutine census); (b) hook scenarios placing a cancel and/or the last Done exactly between the waiter's predicate check and cond.Wait; " +
			"(c) counter-arithmetic scripts incl. the negative-Add panic; a quarter of the library-started rounds submit their work with a context that has already ended (whatever is started is still accounted for). distinct_nontrivial = distinct (worker class, waiters, start mode, speed, cancel-subset, GOMAXPROCS, round) with >=2 workers and >=2 waiters, plus hook and script configurations",
		assumptions:   append([]string{"liveness is decided only at quiescence of a scenario without timers; a watchdog expiry without quiescence is inconclusive"}, commonAssumptions...),
		floorEvals:    300,
		floorDistinct: 30,
		quick:         []buildSpec{plain(8)},
		thorough:      []buildSpec{plain(16), race(4)},
	}
}

func init() {
	props["C15"] = propSpec{
		level: "exploration",
		rule: "instrumented user function (execution counter, max-concurrency gauge, end stamps) wrapped by every flavour of Once (Worker/Operation/Producer/Processor/Handler/Future, adt.Once, Mnemonize, ft.Once/OnceDo), " +
			"Limit(n) (calls below/at/above n) and Lock/WithLock, called by 1-32 goroutines released from a barrier under speed profiles and GOMAXPROCS 1/2/4/16, incl. two-deep stackings; Retry(n) against scripted outcome sequences " +
			"(ok/err/skip/EOF/abort/canceled); call-log order of Join/PreHook/PostHook/Chain; waiters of Launch/Signal/Background/StartGroup/Processor.Background/Producer.Background/Producer.Launch checked by happens-before stamps; a quarter of the Once cases let the single execution end in a panic that its caller recovers (count stays 1); StartGroup waiters get an impatient second waiter whose own context ends early; a third of the Once cases give every second caller a context that has already ended while the single execution takes a moment. " +
			"distinct_nontrivial = distinct (wrapper, caller class, calls/caller, n, speed, GOMAXPROCS, error pattern) with >= 2 callers, plus distinct retry scripts, order cases and background configurations",
		assumptions:   append([]string{"Retry and terminating errors: only 'no attempt follows the terminating error' is asserted (DESIGN 7h)", "when the single execution of a Once wrapper panics only the execution count and the no-early-return clause are asserted"}, commonAssumptions...),
		floorEvals:    1000,
		floorDistinct: 100,
		quick:         []buildSpec{plain(8)},
		thorough:      []buildSpec{plain(16), race(4)},
	}
}

func init() {
	props["C01"] = propSpec{
		level: "exploration",
		rule: "15 fan-out/fan-in constructs (Split+w consumers, ProcessParallel, ParallelForEach, itertool.Process/Worker, Map, ParallelBuffer, Buffer, MergeIterators with unequal/empty sources, GenerateParallel, concurrent ReadOne, " +
			"HF.WorkerPool/OperationPool, two nested combinations) x n in {0,1,2,3,w-1,w,w+1,2w+1,2w+2,random<=300} x w in {1,2,3,4,8,16,33} x speed profiles for source/worker/consumer x GOMAXPROCS 1/2/4/16; unique ids; " +
			"oracle: multiset(invocations)=multiset(output)=input, exact sequence for Buffer and single workers, nil error; no abort, cancel or early Close. " +
			"FirstAdvance (3 of 18 cases): 40 small fresh pipelines per case (Map, Split, ParallelBuffer, Buffer, GenerateParallel, MergeIterators) whose first advance comes from 2-8 spin-aligned goroutines, the last item slow; Map and GenerateParallel are also entered through itertool.Map / itertool.Generate. " +
			"distinct_nontrivial = distinct (construct, n-class relative to w, w, profile triple) with n>=2 and w>=2",
		assumptions:   append([]string{"a pipeline that does not finish is decided at quiescence (census), otherwise inconclusive"}, commonAssumptions...),
		floorEvals:    1500,
		floorDistinct: 200,
		quick:         []buildSpec{plain(8)},
		thorough:      []buildSpec{plain(16), race(8)},
	}
}

func init() {
	props["C03"] = propSpec{
		level: "fault_enumeration",
		rule: "the classification table {ContinueOnError} x {ContinueOnPanic} x {IncludeContextExpirationErrors} x ExcludedErrors{none, the injected error, unrelated} x failure kind {plain, %w-wrapped, typed, panic(error), panic(string), panic(int), " +
			"panic(io.EOF), panic(wrapped skip), ErrIteratorSkip, io.EOF, ErrCurrentOpAbort, context.Canceled} is enumerated COMPLETELY for each of 5 constructs (ProcessParallel, ParallelForEach, itertool.Worker, Map, GenerateParallel) in both tiers; " +
			"collector {default, erc.Collector, custom pair}, workers {1,2,4,8}, n (50*w+.. or small), failure position(s) {first, last, middle, random, pair}, exclusion list assembled in one call / two calls / Set(conf)+Add / with unset (nil) entries, a quarter of the reportable cells re-run with one more item that gives up with a wrapper of ErrCurrentOpAbort (reporting clauses only), worker speed and GOMAXPROCS are drawn per cell (thorough: 120 draws per cell). " +
			"Oracle: every failure that happened is found by errors.Is (ErrRecoveredPanic for panics), unreportable kinds never appear, nil iff nothing reportable, exactly-once processing and complete output in continue modes, " +
			"failing goroutine handles no further item and <= 2w+1 items start after the first failure in abort modes (an exceedance is confirmed by re-execution). distinct_nontrivial = distinct (construct, flags, excluded, kind) cells decided",
		assumptions: append([]string{"ErrCurrentOpAbort returned by the user function: only no-panic and termination are asserted (DESIGN 7c)",
			"io.EOF returned by a GenerateParallel generator is the natural end of input for that worker, not a failure",
			"context errors caused by the group's own abort are tolerated in the result when IncludeContextExpirationErrors is set"}, commonAssumptions...),
		floorEvals:    1000,
		floorDistinct: 500,
		quick:         []buildSpec{plain(8)},
		thorough:      []buildSpec{plain(16), race(8)},
	}
}

func init() {
	props["C04"] = propSpec{
		level: "exploration",
		rule: "one scenario at a time per process: construct in {Split, Buffer, ParallelBuffer, Map, ProcessParallel, GenerateParallel, MergeIterators, Chain, MergeSlices, MergeSliceIterators, BufferedChannel, dt.Map and adt.Map Iterator/Keys/Values, " +
			"4 two-level nestings} x n (0..59) x cut point k (every k for n<=8, classes {0,1,mid,n-1,n} otherwise) x stop mode {exhaust, Close (twice), cancel, Close then cancel, two concurrent Close calls, Close / cancel while the consumer is parked " +
			"on a never-ending source; Split outputs closed in a seeded order} x workers {1,2,3,4,8} x GOMAXPROCS; the process is verified clean before the scenario; after the stop it is brought to quiescence (two identical goroutine censuses, " +
			"no timers) and no goroutine with a frame in, or created by, the module may remain; blocked consumers must have returned; exhaust must end with io.EOF. Batch modes (one census per batch): 150 early-stopped pipelines; shared-readers (250 trials: 2-4 consumers of one buffered output whose source stalls ignoring its context, then their context is cancelled: all return); " +
			"failing-function (120 trials: GenerateParallel / Map / ProcessParallel with 2-64 workers whose function fails at once: the stage ends, nothing is left); the n-ary constructs (MergeIterators, Chain, MergeSlices, MergeSliceIterators) also with no inputs at all. " +
			"distinct_nontrivial = distinct (construct, stop mode, cut class, workers) in which >= 1 module goroutine was alive when the stop was issued",
		assumptions: append([]string{"every Split output is closed (any order) or the context is cancelled; an abandoned un-closed output is not a documented stop (DESIGN 7b)",
			"scenarios use no timers; a watchdog expiry without quiescence is inconclusive"}, commonAssumptions...),
		floorEvals:    500,
		floorDistinct: 80,
		quick:         []buildSpec{plain(8)},
		thorough:      []buildSpec{plain(16)},
	}
}
