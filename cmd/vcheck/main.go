// vcheck is the driver of the runtime-monitoring checks: it rebuilds
// the monitor binary against /repo's working tree (tag verif), shards
// the case list over child processes under watchdogs, reads their
// event streams and race logs, matches violations against
// known_findings.json, writes evidence/<id>.json and prints the
// verdict lines.
package main

import (
	"bufio"
	"encoding/json"
	"flag"
	"fmt"
	"os"
	"os/exec"
	"path/filepath"
	"sort"
	"strconv"
	"strings"
	"sync"
	"syscall"
	"time"
)

type record struct {
	T        string           `json:"t"`
	Prop     string           `json:"prop,omitempty"`
	Sig      string           `json:"sig,omitempty"`
	Case     any              `json:"case,omitempty"`
	CaseIdx  int64            `json:"case_idx,omitempty"`
	Detail   string           `json:"detail,omitempty"`
	Witness  any              `json:"witness,omitempty"`
	Reason   string           `json:"reason,omitempty"`
	Evals    int64            `json:"evals,omitempty"`
	Distinct []string         `json:"distinct,omitempty"`
	Counters map[string]int64 `json:"counters,omitempty"`
	Samples  []any            `json:"samples,omitempty"`
	Shard    int              `json:"shard"`
	Seed     uint64           `json:"seed,omitempty"`
	Build    string           `json:"build,omitempty"`
}

type finding struct {
	Property  string `json:"property"`
	Signature string `json:"signature"`
	Status    string `json:"status"` // open | fixed
	Commit    string `json:"commit,omitempty"`
	What      string `json:"what"`
}

var verifDir = "/verif"

// altSuffix separates the outputs of a run against a scratch copy of the
// repository (VERIF_REPO, used only to validate the monitors against
// seeded changes) from those of the registered checks.
func altSuffix() string {
	if alt := os.Getenv("VERIF_REPO"); alt != "" && alt != "/repo" {
		return "-alt"
	}
	return ""
}

func main() {
	if wd, err := os.Getwd(); err == nil {
		if _, err := os.Stat(filepath.Join(wd, "MANIFEST.json")); err == nil {
			verifDir = wd
		}
	}
	if len(os.Args) < 2 {
		usage()
	}
	switch os.Args[1] {
	case "run":
		os.Exit(cmdRun(os.Args[2:]))
	case "build":
		os.Exit(cmdBuild(os.Args[2:]))
	case "replay":
		os.Exit(cmdReplay(os.Args[2:]))
	case "list":
		for _, id := range propIDs() {
			fmt.Println(id)
		}
	default:
		usage()
	}
}

func usage() {
	fmt.Fprintln(os.Stderr, "usage: vcheck run <ID> [--tier quick|thorough] [--seed N] | build | replay <file> [--reps N] | list")
	os.Exit(3)
}

func propIDs() []string {
	var ids []string
	for id := range props {
		ids = append(ids, id)
	}
	sort.Strings(ids)
	return ids
}

func goEnv() []string {
	env := os.Environ()
	env = append(env, "GOFLAGS=-mod=mod", "GOPROXY=off", "GOSUMDB=off", "GOTOOLCHAIN=local", "CGO_ENABLED=1")
	return env
}

// buildBinary compiles cmd/vmon for one build flavour into dir and
// returns its path. Go's content-addressed cache decides what is
// recompiled, so an edit under /repo always reaches the binary.
func buildBinary(flavour, dir string) (string, error) {
	if err := os.MkdirAll(dir, 0o755); err != nil {
		return "", err
	}
	out := filepath.Join(dir, "vmon."+flavour)
	gobin := "go"
	args := []string{"build", "-tags", "verif"}
	switch flavour {
	case "plain":
	case "race":
		args = append(args, "-race")
	case "race126":
		gobin = "go1.26.8"
		args = append(args, "-race")
	default:
		return "", fmt.Errorf("unknown build flavour %q", flavour)
	}
	if alt := os.Getenv("VERIF_REPO"); alt != "" && alt != "/repo" {
		mf, err := altModfile(alt, dir)
		if err != nil {
			return "", err
		}
		args = append(args, "-modfile="+mf)
	}
	args = append(args, "-o", out, "./cmd/vmon")
	var b []byte
	var err error
	for attempt := 0; attempt < 4; attempt++ {
		cmd := exec.Command(gobin, args...)
		cmd.Dir = verifDir
		cmd.Env = goEnv()
		if b, err = cmd.CombinedOutput(); err == nil {
			return out, nil
		}
		// a build cache that is being trimmed concurrently makes a build
		// fail spuriously: try once more before giving up
		time.Sleep(time.Duration(5*(attempt+1)) * time.Second)
	}
	return "", fmt.Errorf("build %s failed: %v\n%s", flavour, err, b)
}

func altModfile(repo, dir string) (string, error) {
	src, err := os.ReadFile(filepath.Join(verifDir, "go.mod"))
	if err != nil {
		return "", err
	}
	s := strings.Replace(string(src), "=> /repo", "=> "+repo, 1)
	mf := filepath.Join(dir, "alt.go.mod")
	if err := os.WriteFile(mf, []byte(s), 0o644); err != nil {
		return "", err
	}
	sum, _ := os.ReadFile(filepath.Join(verifDir, "go.sum"))
	_ = os.WriteFile(filepath.Join(dir, "alt.go.sum"), sum, 0o644)
	return mf, nil
}

func cmdBuild(args []string) int {
	fs := flag.NewFlagSet("build", flag.ExitOnError)
	all := fs.Bool("all", false, "also build the go1.26.8 race flavour")
	_ = fs.Parse(args)
	flavours := []string{"plain", "race"}
	if *all {
		flavours = append(flavours, "race126")
	}
	for _, f := range flavours {
		t0 := time.Now()
		if _, err := buildBinary(f, filepath.Join(verifDir, ".build", "setup")); err != nil {
			fmt.Fprintln(os.Stderr, err)
			return 3
		}
		fmt.Printf("built %s in %.1fs\n", f, time.Since(t0).Seconds())
	}
	return 0
}

type shardResult struct {
	build     string
	shard     int
	recs      []record
	done      bool
	timedOut  bool
	exitErr   error
	logPath   string
	outPath   string
	racePaths []string
	// stall handling: the child reported that one case made no progress;
	// stallRuns fresh re-executions of that case were made, stallAgain of
	// them stalled again
	stall      *record
	stallRuns  int
	stallAgain int
}

func stallOf(recs []record) *record {
	for i := range recs {
		if recs[i].T == "stall" {
			return &recs[i]
		}
	}
	return nil
}

// runShard runs one child. extra[0], when given, is a suffix for the
// file names of this run; further entries are environment settings.
func runShard(bin, build, prop, tier string, seed uint64, shard, nshards int, rundir string, watchdog time.Duration, replay int64, reps int, extra ...string) shardResult {
	tag := fmt.Sprintf("%s-%02d", build, shard)
	if len(extra) > 0 {
		tag += extra[0]
	}
	res := shardResult{build: build, shard: shard,
		logPath: filepath.Join(rundir, tag+".log"), outPath: filepath.Join(rundir, tag+".jsonl")}
	logf, err := os.Create(res.logPath)
	if err != nil {
		res.exitErr = err
		return res
	}
	defer logf.Close()
	args := []string{"-prop", prop, "-seed", strconv.FormatUint(seed, 10), "-tier", tier, "-shard", strconv.Itoa(shard),
		"-nshards", strconv.Itoa(nshards), "-build", build, "-out", res.outPath}
	if replay >= 0 {
		args = append(args, "-replay", strconv.FormatInt(replay, 10), "-reps", strconv.Itoa(reps))
	}
	cmd := exec.Command(bin, args...)
	cmd.Dir = verifDir
	cmd.Stdout, cmd.Stderr = logf, logf
	cmd.Env = append(os.Environ(), "GOTRACEBACK=all")
	var ks []string
	for _, k := range loadFindings() {
		if k.Property == prop && k.Status == "open" {
			ks = append(ks, k.Signature)
		}
	}
	cmd.Env = append(cmd.Env, "VERIF_KNOWN="+strings.Join(ks, ","))
	if len(extra) > 1 {
		cmd.Env = append(cmd.Env, extra[1:]...)
	}
	if strings.HasPrefix(build, "race") {
		cmd.Env = append(cmd.Env, "GORACE=halt_on_error=0 history_size=3 log_path="+filepath.Join(rundir, "racelog-"+tag))
	}
	if err := cmd.Start(); err != nil {
		res.exitErr = err
		return res
	}
	donech := make(chan error, 1)
	go func() { donech <- cmd.Wait() }()
	select {
	case err := <-donech:
		res.exitErr = err
	case <-time.After(watchdog):
		res.timedOut = true
		_ = cmd.Process.Signal(syscall.SIGQUIT) // goroutine dump into the log file
		select {
		case <-donech:
		case <-time.After(10 * time.Second):
			_ = cmd.Process.Kill()
			<-donech
		}
	}
	res.recs, res.done = readRecords(res.outPath)
	res.racePaths, _ = filepath.Glob(filepath.Join(rundir, "racelog-"+tag+".*"))
	return res
}

func readRecords(path string) ([]record, bool) {
	f, err := os.Open(path)
	if err != nil {
		return nil, false
	}
	defer f.Close()
	var recs []record
	done := false
	sc := bufio.NewScanner(f)
	sc.Buffer(make([]byte, 1<<20), 256<<20)
	for sc.Scan() {
		var r record
		if err := json.Unmarshal(sc.Bytes(), &r); err != nil {
			continue
		}
		if r.T == "done" {
			done = true
		}
		recs = append(recs, r)
	}
	return recs, done
}

type violation struct {
	rec    record
	replay string
}

func cmdRun(args []string) int {
	if len(args) < 1 {
		usage()
	}
	id := args[0]
	fs := flag.NewFlagSet("run", flag.ExitOnError)
	tier := fs.String("tier", envOr("VERIF_TIER", "quick"), "quick|thorough")
	seedStr := fs.String("seed", envOr("VERIF_SEED", "20260928"), "seed")
	_ = fs.Parse(args[1:])
	p, ok := props[id]
	if !ok {
		fmt.Fprintln(os.Stderr, "unknown property", id)
		return 3
	}
	seed, err := strconv.ParseUint(*seedStr, 10, 64)
	if err != nil {
		// any string is accepted as a seed
		var h uint64 = 1469598103934665603
		for _, c := range []byte(*seedStr) {
			h = (h ^ uint64(c)) * 1099511628211
		}
		seed = h
	}
	if *tier != "thorough" {
		*tier = "quick"
	}
	t0 := time.Now()
	rundir := filepath.Join(verifDir, ".run", id+"-"+*tier+altSuffix())
	_ = os.RemoveAll(rundir)
	if err := os.MkdirAll(rundir, 0o755); err != nil {
		fmt.Fprintln(os.Stderr, err)
		return 3
	}
	builds := p.builds(*tier)
	bins := map[string]string{}
	for _, b := range builds {
		bin, err := buildBinary(b.flavour, filepath.Join(verifDir, ".build", id+altSuffix()))
		if err != nil {
			fmt.Fprintln(os.Stderr, err)
			fmt.Printf("INCONCLUSIVE property=%s reason=build-failed\n", id)
			return 2
		}
		bins[b.flavour] = bin
	}

	results := runAll(id, *tier, seed, builds, bins, rundir, 1)
	// a shard whose child reported a stalled case: that case is executed
	// again in two fresh processes with twice the patience. Only a stall
	// that repeats in both is a verdict (the call does not come back);
	// otherwise the shard is run again from the start.
	stallLimit := 90
	if *tier == "thorough" {
		stallLimit = 180
	}
	var rwg sync.WaitGroup
	for i := range results {
		r := &results[i]
		st := stallOf(r.recs)
		if r.done || st == nil {
			continue
		}
		rwg.Add(1)
		go func(i int, r *shardResult, st *record) {
			defer rwg.Done()
			b := findBuild(builds, r.build)
			fmt.Fprintf(os.Stderr, "shard %s-%d: case %d made no progress; re-executing it twice in fresh processes\n", r.build, r.shard, st.CaseIdx)
			var again [2]bool
			var cwg sync.WaitGroup
			for k := 0; k < 2; k++ {
				cwg.Add(1)
				go func(k int) {
					defer cwg.Done()
					rr := runShard(bins[r.build], r.build, id, *tier, seed, r.shard, b.shards, rundir, time.Duration(4*stallLimit)*time.Second, st.CaseIdx, 1,
						fmt.Sprintf("-stallcheck%d", k), fmt.Sprintf("VERIF_STALL=%d", 2*stallLimit))
					again[k] = !rr.done && (stallOf(rr.recs) != nil || rr.timedOut)
				}(k)
			}
			cwg.Wait()
			n := 0
			for _, a := range again {
				if a {
					n++
				}
			}
			if n == 2 {
				r.stall, r.stallRuns, r.stallAgain = st, 2, n
				return
			}
			fmt.Fprintf(os.Stderr, "shard %s-%d: the stall did not repeat (%d of 2); running the shard again\n", r.build, r.shard, n)
			_ = os.Rename(r.logPath, r.logPath+".first")
			results[i] = runShard(bins[r.build], r.build, id, *tier, seed, r.shard, b.shards, rundir, 2*b.watchdog(*tier), -1, 1)
		}(i, r, st)
	}
	rwg.Wait()
	// an inconclusive shard is re-run once with a doubled watchdog
	for i := range results {
		r := results[i]
		if !r.done && r.timedOut && r.stall == nil {
			rwg.Add(1)
			go func(i int, r shardResult) {
				defer rwg.Done()
				b := findBuild(builds, r.build)
				fmt.Fprintf(os.Stderr, "shard %s-%d hit the watchdog, re-running once with a doubled watchdog\n", r.build, r.shard)
				_ = os.Rename(r.logPath, r.logPath+".first")
				results[i] = runShard(bins[r.build], r.build, id, *tier, seed, r.shard, b.shards, rundir, 2*b.watchdog(*tier), -1, 1)
			}(i, r)
		}
	}
	rwg.Wait()

	known := loadFindings()
	var evals int64
	distinct := map[string]struct{}{}
	counters := map[string]int64{}
	var samples []any
	var viols []violation
	var inconc []string
	knownHit := map[string]int{}
	replayN := 0
	addViol := func(rec record) {
		for _, k := range known {
			if k.Property == id && k.Status == "open" && sigMatch(k.Signature, rec.Sig) {
				knownHit[k.Signature]++
				return
			}
		}
		replayN++
		path := filepath.Join(verifDir, "replays"+altSuffix(), fmt.Sprintf("%s-%d-%d.json", id, seed, replayN))
		_ = os.MkdirAll(filepath.Dir(path), 0o755)
		doc := map[string]any{"property": id, "tier": *tier, "seed": seed, "build": rec.Build, "signature": rec.Sig,
			"case_idx": rec.CaseIdx, "case": rec.Case, "detail": rec.Detail, "witness": rec.Witness,
			"replay_cmd": fmt.Sprintf("./vcheck.sh replay %s", path)}
		b, _ := json.MarshalIndent(doc, "", " ")
		_ = os.WriteFile(path, b, 0o644)
		viols = append(viols, violation{rec: rec, replay: path})
	}
	for _, r := range results {
		for _, rec := range r.recs {
			switch rec.T {
			case "viol":
				addViol(rec)
			case "inconc":
				inconc = append(inconc, fmt.Sprintf("%s-%d: %s", r.build, r.shard, rec.Reason))
			case "stats":
				evals += rec.Evals
				for _, k := range rec.Distinct {
					distinct[k] = struct{}{}
				}
				for k, v := range rec.Counters {
					if strings.HasPrefix(k, "known:") {
						for _, kf := range known {
							if kf.Property == id && kf.Status == "open" && sigMatch(kf.Signature, strings.TrimPrefix(k, "known:")) {
								knownHit[kf.Signature] += int(v)
							}
						}
						continue
					}
					if strings.HasPrefix(k, "max:") {
						if counters[k] < v {
							counters[k] = v
						}
					} else {
						counters[k] += v
					}
				}
				for _, s := range rec.Samples {
					if len(samples) < 4 {
						samples = append(samples, s)
					}
				}
			}
		}
		if !r.done {
			logtxt := tail(r.logPath, 1<<20)
			switch {
			case r.stall != nil:
				addViol(record{T: "viol", Prop: id, Sig: id + "/no-progress", Build: r.build, Case: r.stall.Case, CaseIdx: r.stall.CaseIdx, Seed: seed,
					Detail: fmt.Sprintf("the case did not complete: no monitor step finished for %d s in the shard run, and again for %d s in %d of %d fresh re-executions of this case alone (the other cases of this check complete in milliseconds to seconds); the goroutine dump of the first stall is the witness",
						stallLimit, 2*stallLimit, r.stallAgain, r.stallRuns),
					Witness: r.stall.Witness})
			case stallOf(r.recs) != nil:
				inconc = append(inconc, fmt.Sprintf("%s-%d: a case stalled and the re-run of the shard did not finish either (%s)", r.build, r.shard, r.logPath))
			case r.timedOut:
				inconc = append(inconc, fmt.Sprintf("%s-%d: watchdog expired (goroutine dump in %s)", r.build, r.shard, r.logPath))
			case strings.Contains(logtxt, "panic:") || strings.Contains(logtxt, "fatal error:") || strings.Contains(logtxt, "checkptr"):
				cur, _ := os.ReadFile(r.outPath + ".cur")
				addViol(record{T: "viol", Prop: id, Sig: id + "/process-fatal/" + fatalKind(logtxt), Build: r.build,
					Case: strings.TrimSpace(string(cur)), Detail: "child process died: " + firstFatalLine(logtxt), Witness: clip(logtxt, 12000)})
			default:
				inconc = append(inconc, fmt.Sprintf("%s-%d: child ended without a verdict (%v), log %s", r.build, r.shard, r.exitErr, r.logPath))
			}
		}
		// race reports
		for _, rp := range r.racePaths {
			for _, blk := range parseRaceLog(rp) {
				counters["race_blocks"]++
				if !blk.bothInModule {
					inconc = append(inconc, fmt.Sprintf("race report with an access outside the module (monitor defect?): %s", blk.sig))
					continue
				}
				dup := false
				for _, v := range viols {
					if v.rec.Sig == id+"/data-race/"+blk.sig {
						dup = true
					}
				}
				if dup || knownHit[id+"/data-race/"+blk.sig] > 0 {
					continue
				}
				addViol(record{T: "viol", Prop: id, Sig: id + "/data-race/" + blk.sig, Build: r.build, Detail: "race detector report", Witness: blk.text})
			}
		}
	}
	wall := time.Since(t0).Seconds()

	// evidence
	floorMiss := ""
	if evals < p.floorEvals {
		floorMiss = fmt.Sprintf("only %d evaluations (floor %d)", evals, p.floorEvals)
	}
	if len(distinct) < p.floorDistinct {
		floorMiss += fmt.Sprintf(" only %d distinct non-trivial cases (floor %d)", len(distinct), p.floorDistinct)
	}
	if floorMiss != "" && len(viols) == 0 {
		inconc = append(inconc, "too little observed: "+floorMiss)
	}
	if len(samples) == 0 {
		// no monitor-written sample: fall back to the descriptors of cases
		// that were actually decided in this run
		keys := make([]string, 0, len(distinct))
		for k := range distinct {
			keys = append(keys, k)
		}
		sort.Strings(keys)
		for i := 0; i < len(keys) && i < 4; i++ {
			samples = append(samples, map[string]any{"case_descriptor": keys[i]})
		}
	}
	cov := map[string]any{
		"evaluations":         evals,
		"distinct_nontrivial": len(distinct),
		"rule":                p.rule,
		"samples":             samples,
		"observed":            counters,
		"builds":              buildNames(builds),
		"shards":              len(results),
		"known_findings_hit":  knownHit,
		"inconclusive":        inconc,
	}
	ev := map[string]any{
		"property_id": id, "tier": *tier, "seed": seed, "level": p.level, "coverage": cov,
		"assumptions": p.assumptions, "wall_s": round1(wall), "violations": len(viols),
	}
	_ = os.MkdirAll(filepath.Join(verifDir, "evidence"+altSuffix()), 0o755)
	eb, _ := json.MarshalIndent(ev, "", " ")
	_ = os.WriteFile(filepath.Join(verifDir, "evidence"+altSuffix(), id+".json"), append(eb, '\n'), 0o644)

	// verdict lines
	for _, k := range known {
		if k.Property == id && k.Status == "open" && knownHit[k.Signature] > 0 {
			fmt.Printf("KNOWN-FINDING: property=%s %s [%s, seen %d times]\n", id, k.What, k.Signature, knownHit[k.Signature])
		}
	}
	seen := map[string]bool{}
	for _, v := range viols {
		if seen[v.rec.Sig] {
			continue
		}
		seen[v.rec.Sig] = true
		fmt.Printf("VIOLATION property=%s replay=%s\n", id, v.replay)
		fmt.Printf("  signature: %s\n  detail: %s\n", v.rec.Sig, clip(v.rec.Detail, 600))
	}
	fmt.Printf("%s %s: %d evaluations, %d distinct non-trivial, %d violations, %d known-finding hits, %.1fs\n",
		id, *tier, evals, len(distinct), len(viols), sumMap(knownHit), wall)
	if len(viols) > 0 {
		return 1
	}
	if len(inconc) > 0 {
		for _, s := range dedupe(inconc) {
			fmt.Printf("INCONCLUSIVE property=%s reason=%s\n", id, s)
		}
		return 2
	}
	return 0
}

func runAll(id, tier string, seed uint64, builds []buildSpec, bins map[string]string, rundir string, wdMult int) []shardResult {
	type job struct {
		b     buildSpec
		shard int
	}
	var jobs []job
	for _, b := range builds {
		for s := 0; s < b.shards; s++ {
			jobs = append(jobs, job{b, s})
		}
	}
	results := make([]shardResult, len(jobs))
	sem := make(chan struct{}, 16)
	var wg sync.WaitGroup
	for i, j := range jobs {
		wg.Add(1)
		sem <- struct{}{}
		go func(i int, j job) {
			defer wg.Done()
			defer func() { <-sem }()
			results[i] = runShard(bins[j.b.flavour], j.b.flavour, id, tier, seed, j.shard, j.b.shards, rundir, time.Duration(wdMult)*j.b.watchdog(tier), -1, 1)
		}(i, j)
	}
	wg.Wait()
	return results
}

func cmdReplay(args []string) int {
	if len(args) < 1 {
		usage()
	}
	path := args[0]
	fs := flag.NewFlagSet("replay", flag.ExitOnError)
	reps := fs.Int("reps", 20, "repetitions")
	_ = fs.Parse(args[1:])
	b, err := os.ReadFile(path)
	if err != nil {
		fmt.Fprintln(os.Stderr, err)
		return 3
	}
	var doc struct {
		Property string `json:"property"`
		Tier     string `json:"tier"`
		Seed     uint64 `json:"seed"`
		Build    string `json:"build"`
		CaseIdx  int64  `json:"case_idx"`
		Sig      string `json:"signature"`
	}
	if err := json.Unmarshal(b, &doc); err != nil {
		fmt.Fprintln(os.Stderr, err)
		return 3
	}
	if doc.Build == "" {
		doc.Build = "plain"
	}
	fmt.Printf("stored witness: property=%s signature=%s case_idx=%d seed=%d build=%s\n", doc.Property, doc.Sig, doc.CaseIdx, doc.Seed, doc.Build)
	bin, err := buildBinary(doc.Build, filepath.Join(verifDir, ".build", doc.Property))
	if err != nil {
		fmt.Fprintln(os.Stderr, err)
		return 3
	}
	rundir := filepath.Join(verifDir, ".run", doc.Property+"-replay")
	_ = os.RemoveAll(rundir)
	_ = os.MkdirAll(rundir, 0o755)
	r := runShard(bin, doc.Build, doc.Property, doc.Tier, doc.Seed, 0, 1, rundir, 10*time.Minute, doc.CaseIdx, *reps)
	n := 0
	for _, rec := range r.recs {
		if rec.T == "viol" {
			n++
			if n <= 3 {
				fmt.Printf("re-executed: VIOLATION %s: %s\n", rec.Sig, clip(rec.Detail, 600))
			}
		}
	}
	for _, rp := range r.racePaths {
		for _, blk := range parseRaceLog(rp) {
			n++
			fmt.Printf("re-executed: race %s\n", blk.sig)
		}
	}
	if !r.done {
		fmt.Printf("re-executed: child did not finish (see %s)\n", r.logPath)
		n++
	}
	fmt.Printf("replay of case %d x%d: %d violation reports\n", doc.CaseIdx, *reps, n)
	if n > 0 {
		return 1
	}
	return 0
}

// ---- helpers ----------------------------------------------------------

func envOr(k, d string) string {
	if v := os.Getenv(k); v != "" {
		return v
	}
	return d
}

func loadFindings() []finding {
	b, err := os.ReadFile(filepath.Join(verifDir, "known_findings.json"))
	if err != nil {
		return nil
	}
	var doc struct {
		Findings []finding `json:"findings"`
	}
	if err := json.Unmarshal(b, &doc); err != nil {
		fmt.Fprintln(os.Stderr, "known_findings.json:", err)
		return nil
	}
	return doc.Findings
}

// sigMatch: a known-finding signature matches exactly, or as a prefix
// when it ends in "/*".
func sigMatch(known, got string) bool {
	if strings.HasSuffix(known, "/*") {
		return strings.HasPrefix(got, strings.TrimSuffix(known, "*"))
	}
	return known == got
}

func tail(path string, n int64) string {
	f, err := os.Open(path)
	if err != nil {
		return ""
	}
	defer f.Close()
	st, _ := f.Stat()
	// the head of the log holds the first fatal message; read both ends
	head := make([]byte, 64<<10)
	hn, _ := f.Read(head)
	out := string(head[:hn])
	if st.Size() > int64(hn) {
		off := st.Size() - n
		if off < int64(hn) {
			off = int64(hn)
		}
		b := make([]byte, st.Size()-off)
		m, _ := f.ReadAt(b, off)
		out += string(b[:m])
	}
	return out
}

func firstFatalLine(s string) string {
	for _, ln := range strings.Split(s, "\n") {
		if strings.HasPrefix(ln, "panic:") || strings.HasPrefix(ln, "fatal error:") || strings.Contains(ln, "checkptr") {
			return clip(ln, 300)
		}
	}
	return ""
}

func fatalKind(s string) string {
	ln := firstFatalLine(s)
	switch {
	case strings.Contains(ln, "concurrent map"):
		return "concurrent-map-access"
	case strings.HasPrefix(ln, "fatal error:"):
		return "fatal-error"
	case strings.Contains(ln, "nil pointer"):
		return "nil-deref"
	}
	return "panic"
}

func clip(s string, n int) string {
	if len(s) > n {
		return s[:n] + "…"
	}
	return s
}

func round1(f float64) float64 { return float64(int(f*10+0.5)) / 10 }

func sumMap(m map[string]int) int {
	n := 0
	for _, v := range m {
		n += v
	}
	return n
}

func dedupe(in []string) []string {
	seen := map[string]bool{}
	var out []string
	for _, s := range in {
		if !seen[s] {
			seen[s] = true
			out = append(out, s)
		}
	}
	if len(out) > 8 {
		out = append(out[:8], fmt.Sprintf("... and %d more", len(out)-8))
	}
	return out
}

func buildNames(bs []buildSpec) []string {
	var out []string
	for _, b := range bs {
		out = append(out, fmt.Sprintf("%s x%d", b.flavour, b.shards))
	}
	return out
}

func findBuild(bs []buildSpec, name string) buildSpec {
	for _, b := range bs {
		if b.flavour == name {
			return b
		}
	}
	return bs[0]
}
