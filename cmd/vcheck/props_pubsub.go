package main

func init() {
	linRule := func(what, ops string) string {
		return "many short concurrent histories (3-6 clients x 4-10 operations, unique values, " + ops + ") over seeded valid options (" + what + "), GOMAXPROCS 1/2/4/16, random yields, cancellation of client contexts and Close " +
			"at seeded logical times, every history ended by cancel-all + Close and drained; recorded at the client boundary with a logical clock and checked by porcupine against the sequential model written from the documentation " +
			"(operations that return a context error are no-ops); plus single-client scripts of 50-300 operations checked in lock-step (they drive the quota/credit arithmetic deep). " +
			"distinct_nontrivial = distinct (options, clients, ops/client, GOMAXPROCS, controller actions) of histories with >= 2 overlapping operation pairs and >= 1 blocking operation, plus distinct options of lock-step scripts"
	}
	props["C05"] = propSpec{
		level:         "exploration",
		rule:          linRule("hard limit 1..8, soft quota 0..hard, burst credit {0,.5,1,2.5,hard}, and the unlimited queue", "Add, BlockingAdd, Remove, Wait, Len, Close, Distributor Send/Receive/Len"),
		assumptions:   append([]string{"'free capacity' for BlockingAdd is len < soft quota as the documented tracker defines cap (DESIGN 7j)", "porcupine timeout 20 s per history => inconclusive"}, commonAssumptions...),
		floorEvals:    500,
		floorDistinct: 50,
		quick:         []buildSpec{plain(8)},
		thorough:      []buildSpec{plain(16), race(8)},
	}
	props["C06"] = propSpec{
		level:         "exploration",
		rule:          linRule("capacity {1,2,3,5}, unlimited, QueueOptions trackers", "Push/Pop/ForcePush/Wait*/WaitPush* at both ends, Len, Close"),
		assumptions:   append([]string{"'full' for a QueueOptions-backed deque is len == soft quota (the documented tracker's cap)", "porcupine timeout 20 s per history => inconclusive"}, commonAssumptions...),
		floorEvals:    500,
		floorDistinct: 50,
		quick:         []buildSpec{plain(8)},
		thorough:      []buildSpec{plain(16), race(8)},
	}
}

func init() {
	props["C07"] = propSpec{
		level: "exploration",
		rule: "deadlock-at-quiescence scenarios, one at a time per process: container (Queue / Deque, seeded valid options) in state {empty, one, several, full, filled exactly to the initial quota}; 1-4 blocking operations biased to the state (Queue.Wait, BlockingAdd, Distributor.Receive, an iterator parked at the tail; " +
			"Deque.WaitFront/WaitBack/WaitPushFront/WaitPushBack, Distributor Send/Receive, blocking producers; at most one waiter per Deque condition variable) parked; then 1-6 stimulus steps {burst of pushes back-to-back, pops, push-then-pop, pop racing push, cancel one waiter, Close, " +
			"a fresh call whose condition may already hold, settle} under GOMAXPROCS 1/2/4/16; verdict only at quiescence (two identical goroutine censuses, every goroutine parked, logical clock unchanged, no timers): an operation still parked although " +
			"its context is cancelled / the container is closed / it is a consumer and Len()>0 / it is a producer and there is room (static capacity, or a fresh call of the same kind completes at once) is a violation; " +
			"plus hook scenarios placing cancel / the enabling operation / Close exactly between predicate check and cond.Wait. distinct_nontrivial = distinct (container, options, initial state, parked operation kinds, GOMAXPROCS) in which >= 1 operation was observed parked before the stimulus",
		assumptions: append([]string{"scenarios use no timers, so quiescence is stable; a watchdog expiry without quiescence is inconclusive",
			"two waiters on the same Deque condition variable are not placed (they signal each other for ever and the process never becomes quiescent)"}, commonAssumptions...),
		floorEvals:    200,
		floorDistinct: 40,
		quick:         []buildSpec{plain(8)},
		thorough:      []buildSpec{plain(16)},
	}
}

func init() {
	props["C20"] = propSpec{
		level: "exploration",
		rule: "seeded controller scripts over {Queue.Iterator, Deque.Iterator, IteratorReverse, ProducerBlocking, ProducerReverseBlocking}: initial contents 0-6 (strictly increasing ids), then 4-17 actions from " +
			"{iterator step (own goroutine, may park), add at the iterator's far end, remove/pop (in a third of the scripts), Close, cancel}, optionally two iterators on one queue, GOMAXPROCS 1/2/4/16; " +
			"oracle: no panic, only added ids, no id twice, exact order of addition absent removals (increasing subsequence with removals), io.EOF after Close having seen everything, return after cancel, non-blocking iterators end at the end; " +
			"a step the model requires to return is decided at quiescence (census) when it has not; plus hook scenarios landing an Add / cancel / remove-to-empty-then-Add between the look at the tail and cond.Wait. " +
			"distinct_nontrivial = distinct (iterator kind, removal, two-iterators, initial size, GOMAXPROCS, script length class) with >= 2 values yielded, plus hook configurations",
		assumptions: append([]string{"with removals, 'parked while an unseen item is present' is asserted only for the Queue iterator (an item present now and newer than everything yielded); a Deque blocking producer whose cursor element was popped is observed, not judged",
			"additions behind the cursor (other end of a Deque) are not generated"}, commonAssumptions...),
		floorEvals:    300,
		floorDistinct: 60,
		quick:         []buildSpec{plain(8)},
		thorough:      []buildSpec{plain(16)},
	}
}

func init() {
	props["C08"] = propSpec{
		level: "exploration",
		rule: "seeded broker runs: back-end {channel, unlimited Queue, unlimited Deque, bounded Deque, bounded Queue, LIFO} (a third built by the library's own NewBroker / NewQueueBroker / NewDequeBroker / NewLIFOBroker, the rest over a counting distributor) x ParallelDispatch x WorkerPoolSize {0,1,2,4; 8/32/96 on channel and Queue back-ends} x BufferSize {0,1,8} x 1-4 publishers (a quarter of them hand an iterator to Broker.Populate) x 1-400 messages (unique ids) x " +
			"subscribers {static, late joiners, early leavers, 1-3 churners that keep subscribing and unsubscribing fresh channels while the messages flow, late joiners in pairs, joiner storms of 24-40 subscribers} with speed profiles x delay injected between pop and dispatch (wrapping distributor) x GOMAXPROCS; oracle: every configuration - received subset of published, no id twice; " +
			"lossless configurations (BufferSize 0; channel / unlimited queue / unlimited deque) - every message whose Publish was called after a subscriber's Subscribe returned is received by it (decided at quiescence when missing); " +
			"single dispatch worker - every subscriber preserves each publisher's order, all subscribers agree on one order, and (lossless) per publisher no subscriber, leaving ones included, has a gap between the first message published after its Subscribe returned and the last one it received. distinct_nontrivial = distinct configurations of runs with >= 2 subscribers, >= 2 publishers and >= 2 publisher interleavings in the witness order",
		assumptions: append([]string{"early leavers are checked for the universal clauses and for gap-freeness up to the last message they received (DESIGN 7d)",
			"a Deque-backed broker with >= 2 dispatch workers never becomes quiescent (idle dispatchers signal each other): for it only met expectations are decided, unmet ones are counted as skipped"}, commonAssumptions...),
		floorEvals:    100,
		floorDistinct: 20,
		quick:         []buildSpec{plain(8)},
		thorough:      []buildSpec{plain(16), race(4)},
	}
	props["C09"] = propSpec{
		level: "exploration",
		rule: "broker scenarios over every back-end (channel, Queue, Deque, bounded, LIFO) and BrokerOptions, one at a time per process, with a counting distributor (accepted/popped): " +
			"(a) progress - bursts {1,2,10,100} x 1-4 rounds x 1-3 publishers while 1-3 subscribers keep reading: publishers return, accepted==popped, depth 0 and every popped message reaches every subscriber (unmet => decided at quiescence); " +
			"(b) shutdown - stop point {idle, mid-dispatch with a non-reading subscriber, mid-publish, backlog} x {Stop, cancel parent} x Wait started before/after: Wait returns, pending calls return once their context ends, no broker goroutine in the census, " +
			"Publish/Subscribe/Unsubscribe/Stats return after their context is cancelled; (c) 20-80 Stats calls whose context ends between request and reply (a context that flips after its first Done() call, and racing cancels) followed by a health probe; " +
			"(d) hook: Stop/cancel landing between the idle dispatcher's predicate check and cond.Wait; (e) trickle: one constructor-built broker, 6000 awaited bursts of 1-2 messages (a message that waits for the next publish is stuck); (f) fill: 120 short-lived brokers per case (alternately a large idle pool parked on a Queue) whose 2-8 workers race for the last slots of an undrained buffered subscription, then Stop / cancel: Wait returns, nothing is left. distinct_nontrivial = distinct (mode, back-end, options, stop point/how/burst, GOMAXPROCS) decided",
		assumptions: append([]string{"scenarios use no timers; verdicts on unmet expectations only at quiescence",
			"Deque-backed brokers with >= 2 dispatch workers never become quiescent: unmet expectations there are counted as skipped"}, commonAssumptions...),
		floorEvals:    100,
		floorDistinct: 40,
		quick:         []buildSpec{plain(8)},
		thorough:      []buildSpec{plain(16)},
	}
}

func init() {
	props["C13"] = propSpec{
		level: "exploration",
		rule: "Go race detector (-race build of the monitor) over a method-pair matrix: for each documented concurrency-safe type {pubsub.Queue, Deque (+ Distributors, iterators, blocking producers), Broker (channel/queue/deque), fun.WaitGroup, erc.Collector incl. inspecting the resolved error, " +
			"adt.Map / Atomic / Synchronized / Once / Pool, synchronized dt.Set ordered and unordered, Lock/WithLock/Once/Limit wrappers of Worker/Operation/Producer/Processor/Handler/Future/Transform} every unordered pair of public methods (incl. a method with itself) is driven by 2-4 goroutines " +
			"released from a barrier on one shared, pre-populated instance (first-use / last-use: a fresh object per step - zero values and fresh wrappers first touched, fresh brokers with messages in flight ended in two ways - met by two goroutines) (300 calls each; thorough: 1500 calls x 4 repetitions, plus the same matrix built with go1.26.8); reports are read from the detector's log, deduplicated by frame pair, and count when both accesses are in module code " +
			"(or in the monitor's lock-protected probe state). distinct_nontrivial = distinct method pairs for which at least one pair of call intervals (monotonic clock, per goroutine) was observed to overlap",
		assumptions: append([]string{"decides only the accesses that the drivers actually overlapped; the static lock-set reading ('every path holds the mutex') is not decided",
			"no shared atomic clock is used around the calls (it would add happens-before edges and hide races)"}, commonAssumptions...),
		floorEvals:    200,
		floorDistinct: 150,
		quick:         []buildSpec{race(12)},
		thorough:      []buildSpec{race(16), race126(8)},
	}
}
