#!/bin/bash
# Entry point of every registered check: (re)builds the driver if needed and runs it.
#   ./vcheck.sh run <ID> --tier quick|thorough     ./vcheck.sh replay <file>     ./vcheck.sh build
set -u
cd "$(dirname "$0")"
export GOFLAGS=-mod=mod GOPROXY=off GOSUMDB=off GOTOOLCHAIN=local
mkdir -p bin .build .run evidence replays
if ! go build -o bin/vcheck ./cmd/vcheck 2>.build/vcheck.build.log; then
  cat .build/vcheck.build.log >&2
  echo "INCONCLUSIVE reason=driver-build-failed"
  exit 2
fi
exec ./bin/vcheck "$@"
