#!/bin/bash
# Entry point of every registered check: (re)builds the driver if needed and runs it.
#   ./vcheck.sh run <ID> --tier quick|thorough     ./vcheck.sh replay <file>     ./vcheck.sh build
set -u
cd "$(dirname "$0")"
export GOFLAGS=-mod=mod GOPROXY=off GOSUMDB=off GOTOOLCHAIN=local
mkdir -p bin .build .run evidence replays
ok=0
for attempt in 1 2 3 4; do
  if go build -o bin/vcheck ./cmd/vcheck 2>.build/vcheck.build.log; then ok=1; break; fi
  sleep $((attempt * 5))   # a build cache that is being trimmed concurrently fails builds spuriously
done
if [ $ok -ne 1 ]; then
  cat .build/vcheck.build.log >&2
  echo "INCONCLUSIVE reason=driver-build-failed"
  exit 2
fi
exec ./bin/vcheck "$@"
