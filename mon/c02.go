package mon

import (
	"context"
	"encoding/json"
	"errors"
	"fmt"
	"io"
	"math/rand/v2"
	"sort"
	"strconv"
	"strings"

	"github.com/tychoish/fun"
	"github.com/tychoish/fun/dt"
	"github.com/tychoish/fun/itertool"
	"github.com/tychoish/fun/risky"

	"verif/kit"
)

// C02 — sequential iterator pipelines equal their functional
// specification. A generated operator tree is built twice: once from
// the library's iterators and once as pure functions over slices; the
// two results must agree for every sink.

func init() { register("C02", runC02) }

type pfault struct {
	Pos  int    // index of the element (as seen by the user function) that fails
	Kind string // skip | err | wrapped
}

type pnode struct {
	Op    string
	Kids  []*pnode
	Xs    []int
	K     int
	Fault *pfault
}

var errInjected = errors.New("injected failure")

// c02Rec carries one int in one of four optional fields.
type c02Rec struct {
	A int            `json:"a,omitempty"`
	B string         `json:"b,omitempty"`
	C []int          `json:"c,omitempty"`
	M map[string]int `json:"m,omitempty"`
}

func c02Enc(x int) c02Rec {
	switch ((x % 4) + 4) % 4 {
	case 0:
		return c02Rec{A: x} // 0 encodes as the empty object
	case 1:
		return c02Rec{B: strconv.Itoa(x)}
	case 2:
		c := []int{x}
		for k := 0; k < ((x/4)%3+3)%3; k++ {
			c = append(c, k)
		}
		return c02Rec{C: c}
	}
	return c02Rec{M: map[string]int{"k" + strconv.Itoa(x): x}}
}

// c02Dec inverts c02Enc; a record that is not in its image decodes to a
// value no input contains.
func c02Dec(r c02Rec) int {
	const garbage = -987654
	set := 0
	v := 0
	if r.A != 0 {
		set++
		v = r.A
	}
	if r.B != "" {
		set++
		v, _ = strconv.Atoi(r.B)
	}
	if len(r.C) > 0 {
		set++
		v = r.C[0]
		if len(r.C) != 1+((v/4)%3+3)%3 {
			return garbage
		}
	}
	if len(r.M) > 0 {
		set++
		if len(r.M) != 1 {
			return garbage
		}
		for k, x := range r.M {
			v = x
			if k != "k"+strconv.Itoa(x) {
				return garbage
			}
		}
	}
	if set > 1 {
		return garbage
	}
	if set == 1 && fmt.Sprint(c02Enc(v)) != fmt.Sprint(r) {
		return garbage
	}
	return v
}

func (f *pfault) errAt(i int) error {
	if f == nil || i != f.Pos {
		return nil
	}
	switch f.Kind {
	case "skip":
		return fun.ErrIteratorSkip
	case "wrapped":
		return fmt.Errorf("context: %w", errInjected)
	}
	return errInjected
}

var c02Sources = []string{"slice", "variadic", "chan", "generator", "dtslice", "list", "list-rev", "list-pop", "list-poprev", "stack", "stack-pop", "unmarshal-onto", "mergeslices"}
var c02Unary = []string{"filter", "transform", "convert", "buffer", "split1", "channel", "bufchannel", "uniq", "dropzero", "indexed", "any", "json", "list-rt", "slice-rt", "stack-rt", "transform-err", "filter-producer"}
var c02Nary = []string{"join", "chain", "mergesliceiters"}

func c02Gen(rng *rand.Rand, depth int) *pnode {
	if depth <= 0 || rng.IntN(10) < 2 {
		n := &pnode{Op: c02Sources[rng.IntN(len(c02Sources))]}
		ln := rng.IntN(7)
		if rng.IntN(12) == 0 {
			ln = 7 + rng.IntN(34)
		}
		for i := 0; i < ln; i++ {
			n.Xs = append(n.Xs, rng.IntN(6)-2)
		}
		n.K = rng.IntN(4)
		return n
	}
	if rng.IntN(10) < 7 {
		n := &pnode{Op: c02Unary[rng.IntN(len(c02Unary))], K: rng.IntN(5)}
		n.Kids = []*pnode{c02Gen(rng, depth-1)}
		return n
	}
	n := &pnode{Op: c02Nary[rng.IntN(len(c02Nary))]}
	for k := 1 + rng.IntN(3); k > 0; k-- {
		n.Kids = append(n.Kids, c02Gen(rng, depth-1))
	}
	return n
}

func predFor(k int) func(int) bool {
	switch k {
	case 0:
		return func(x int) bool { return x > 0 }
	case 1:
		return func(x int) bool { return x%2 == 0 }
	case 2:
		return func(x int) bool { return x != 0 }
	case 3:
		return func(int) bool { return true }
	}
	return func(int) bool { return false }
}

func mapFor(k int) func(int) int {
	switch k {
	case 0:
		return func(x int) int { return x + 1 }
	case 1:
		return func(x int) int { return x * 2 }
	case 2:
		return func(x int) int { return -x }
	case 3:
		return func(x int) int { return x % 3 }
	}
	return func(x int) int { return x }
}

// model is the pure-function specification.
func (n *pnode) model() []int {
	switch n.Op {
	case "slice", "variadic", "chan", "dtslice", "list", "list-pop":
		return append([]int(nil), n.Xs...)
	case "generator":
		var out []int
		for i, x := range n.Xs {
			if e := n.Fault.errAt(i); e != nil {
				if errors.Is(e, fun.ErrIteratorSkip) {
					continue
				}
				return out
			}
			out = append(out, x)
		}
		return out
	case "list-rev", "list-poprev", "stack", "stack-pop":
		out := append([]int(nil), n.Xs...)
		reverseInts(out)
		return out
	case "unmarshal-onto":
		// existing producer yields Xs[:K'], the JSON document the rest
		return append([]int(nil), n.Xs...)
	case "mergeslices":
		return append([]int(nil), n.Xs...)
	}
	var in [][]int
	for _, k := range n.Kids {
		in = append(in, k.model())
	}
	switch n.Op {
	case "filter", "filter-producer":
		var out []int
		p := predFor(n.K)
		for _, x := range in[0] {
			if p(x) {
				out = append(out, x)
			}
		}
		return out
	case "transform", "convert":
		out := make([]int, 0, len(in[0]))
		f := mapFor(n.K)
		for _, x := range in[0] {
			out = append(out, f(x))
		}
		return out
	case "transform-err":
		var out []int
		f := mapFor(n.K)
		for i, x := range in[0] {
			if e := n.Fault.errAt(i); e != nil {
				if errors.Is(e, fun.ErrIteratorSkip) {
					continue
				}
				return out
			}
			out = append(out, f(x))
		}
		return out
	case "buffer", "split1", "channel", "bufchannel", "any", "json", "list-rt", "slice-rt":
		return in[0]
	case "stack-rt":
		out := append([]int(nil), in[0]...)
		reverseInts(out)
		return out
	case "uniq":
		seen := map[int]bool{}
		var out []int
		for _, x := range in[0] {
			if !seen[x] {
				seen[x] = true
				out = append(out, x)
			}
		}
		return out
	case "dropzero":
		var out []int
		for _, x := range in[0] {
			if x != 0 {
				out = append(out, x)
			}
		}
		return out
	case "indexed":
		out := make([]int, 0, len(in[0]))
		for i, x := range in[0] {
			out = append(out, i*100+x)
		}
		return out
	case "join", "chain", "mergesliceiters":
		var out []int
		for _, s := range in {
			out = append(out, s...)
		}
		return out
	}
	panic("model: unknown op " + n.Op)
}

// build constructs the library pipeline.
func (n *pnode) build(ctx context.Context) *fun.Iterator[int] {
	xs := append([]int(nil), n.Xs...)
	switch n.Op {
	case "slice":
		return fun.SliceIterator(xs)
	case "variadic":
		return fun.VariadicIterator(xs...)
	case "chan":
		ch := make(chan int, len(xs))
		for _, x := range xs {
			ch <- x
		}
		close(ch)
		return fun.ChannelIterator(ch)
	case "generator":
		i := -1
		f := n.Fault
		return fun.Generator(func(context.Context) (int, error) {
			i++
			if i >= len(xs) {
				return 0, io.EOF
			}
			if e := f.errAt(i); e != nil {
				return 0, e
			}
			return xs[i], nil
		})
	case "dtslice":
		return dt.NewSlice(xs).Iterator()
	case "list", "list-rev", "list-pop", "list-poprev":
		l := &dt.List[int]{}
		l.Append(xs...)
		switch n.Op {
		case "list":
			return l.Iterator()
		case "list-rev":
			return l.Reverse()
		case "list-pop":
			return l.PopIterator()
		}
		return l.PopReverse()
	case "stack", "stack-pop":
		s := &dt.Stack[int]{}
		s.Append(xs...)
		if n.Op == "stack" {
			return s.Iterator()
		}
		return s.PopIterator()
	case "unmarshal-onto":
		cut := 0
		if len(xs) > 0 {
			cut = n.K % (len(xs) + 1)
		}
		it := fun.SliceIterator(append([]int(nil), xs[:cut]...))
		b, _ := json.Marshal(xs[cut:])
		if len(xs[cut:]) == 0 {
			b = []byte("[]")
		}
		if err := it.UnmarshalJSON(b); err != nil {
			panic(err)
		}
		return it
	case "mergeslices":
		var parts [][]int
		rest := xs
		for len(rest) > 0 {
			c := 1 + n.K%3
			if c > len(rest) {
				c = len(rest)
			}
			parts = append(parts, rest[:c])
			rest = rest[c:]
		}
		switch n.K {
		case 0:
			parts = append(parts, nil) // an empty slice at the end
		case 1:
			parts = append([][]int{{}}, parts...) // at the front
		case 2:
			mid := len(parts) / 2 // in the middle, followed by more input
			parts = append(parts[:mid:mid], append([][]int{nil, {}}, parts[mid:]...)...)
		}
		return itertool.MergeSlices(parts...)
	}
	in := n.Kids[0].build(ctx)
	switch n.Op {
	case "filter":
		return in.Filter(predFor(n.K))
	case "filter-producer":
		return in.Producer().Filter(predFor(n.K)).Iterator()
	case "transform":
		return in.Transform(fun.Converter(mapFor(n.K)))
	case "convert":
		f := mapFor(n.K)
		mid := fun.ConvertIterator(in, fun.Converter(func(x int) string { return fmt.Sprint(f(x)) }))
		return fun.ConvertIterator(mid, fun.ConverterErr(func(s string) (int, error) { var v int; _, err := fmt.Sscan(s, &v); return v, err }))
	case "transform-err":
		f, fl := mapFor(n.K), n.Fault
		i := -1
		return fun.ConvertIterator(in, fun.ConverterErr(func(x int) (int, error) {
			i++
			if e := fl.errAt(i); e != nil {
				return 0, e
			}
			return f(x), nil
		}))
	case "buffer":
		return in.Buffer(n.K)
	case "split1":
		return in.Split(1)[0]
	case "channel":
		return fun.ChannelIterator(in.Channel(ctx))
	case "bufchannel":
		return fun.ChannelIterator(in.BufferedChannel(ctx, 1+n.K))
	case "uniq":
		return itertool.Uniq(in)
	case "dropzero":
		return itertool.DropZeroValues(in)
	case "indexed":
		return fun.ConvertIterator(itertool.Indexed(in), fun.Converter(func(p dt.Pair[int, int]) int { return p.Key*100 + p.Value }))
	case "any":
		return fun.ConvertIterator(in.Any(), fun.Converter(func(a any) int { return a.(int) }))
	case "json":
		if n.K%2 == 1 {
			// through a structured element type whose fields come and go
			// from one element to the next (omitempty): each element of the
			// document decodes into a value of its own
			enc := fun.ConvertIterator(in, fun.Converter(c02Enc))
			b, err := enc.MarshalJSON()
			if err != nil {
				panic(err)
			}
			out := fun.SliceIterator([]c02Rec{})
			if err := out.UnmarshalJSON(b); err != nil {
				panic(err)
			}
			recs, err := out.Slice(ctx)
			if err != nil {
				panic(err)
			}
			ints := make([]int, len(recs))
			for k := range recs { // decoded only after all were yielded: aliasing shows
				ints[k] = c02Dec(recs[k])
			}
			return fun.SliceIterator(ints)
		}
		b, err := in.MarshalJSON()
		if err != nil {
			panic(err)
		}
		out := fun.SliceIterator([]int{})
		if err := out.UnmarshalJSON(b); err != nil {
			panic(err)
		}
		return out
	case "list-rt":
		return risky.List(in).Iterator()
	case "slice-rt":
		return fun.SliceIterator(risky.Slice(in))
	case "stack-rt":
		s, err := dt.NewStackFromIterator(ctx, in)
		if err != nil {
			panic(err)
		}
		return s.Iterator()
	case "join":
		var rest []*fun.Iterator[int]
		for _, k := range n.Kids[1:] {
			rest = append(rest, k.build(ctx))
		}
		return in.Join(rest...)
	case "chain":
		its := []*fun.Iterator[int]{in}
		for _, k := range n.Kids[1:] {
			its = append(its, k.build(ctx))
		}
		return itertool.Chain(its...)
	case "mergesliceiters":
		var sls [][]int
		sls = append(sls, risky.Slice(in))
		for _, k := range n.Kids[1:] {
			sls = append(sls, risky.Slice(k.build(ctx)))
		}
		return itertool.MergeSliceIterators(fun.SliceIterator(sls))
	}
	panic("build: unknown op " + n.Op)
}

func (n *pnode) String() string {
	s := n.Op
	if len(n.Kids) == 0 {
		s += fmt.Sprint(n.Xs)
	}
	if n.Op == "filter" || n.Op == "transform" || n.Op == "convert" || n.Op == "transform-err" || n.Op == "buffer" || n.Op == "filter-producer" {
		s += fmt.Sprintf("#%d", n.K)
	}
	if n.Fault != nil {
		s += fmt.Sprintf("!%s@%d", n.Fault.Kind, n.Fault.Pos)
	}
	if len(n.Kids) > 0 {
		parts := make([]string, len(n.Kids))
		for i, k := range n.Kids {
			parts[i] = k.String()
		}
		s += "(" + strings.Join(parts, ", ") + ")"
	}
	return s
}

func (n *pnode) shape() string {
	if len(n.Kids) == 0 {
		return n.Op
	}
	parts := make([]string, len(n.Kids))
	for i, k := range n.Kids {
		parts[i] = k.shape()
	}
	return n.Op + "(" + strings.Join(parts, ",") + ")"
}

func (n *pnode) count() (ops int, async bool) {
	ops = 1
	switch n.Op {
	case "buffer", "split1", "channel", "bufchannel", "chain", "mergesliceiters", "mergeslices":
		async = true
	}
	for _, k := range n.Kids {
		o, a := k.count()
		ops += o
		async = async || a
	}
	return
}

// faultSites lists the nodes with a user function that may fail.
// lastOnly restricts to nodes that are in the last operand of every
// n-ary ancestor (DESIGN 7a) — required for non-skip errors.
func (n *pnode) faultSites(lastOnly bool, out *[]*pnode) {
	if n.Op == "transform-err" || n.Op == "generator" {
		*out = append(*out, n)
	}
	for i, k := range n.Kids {
		if lastOnly && len(n.Kids) > 1 && i != len(n.Kids)-1 {
			continue
		}
		k.faultSites(lastOnly, out)
	}
}

func runC02(r *kit.Run) {
	n := int64(r.Scale(24000, 18000000))
	sinks := []string{"readone", "slice", "count", "reduce", "contains", "json", "itertool-reduce"}
	for i := int64(0); i < n && !r.Stopped(); i++ {
		if !r.Mine(i) {
			continue
		}
		rng := r.Rng("tree", i)
		root := c02Gen(rng, 1+rng.IntN(5))
		// fault injection in about a third of the trees
		faulted := false
		if rng.IntN(3) == 0 {
			kind := []string{"skip", "err", "wrapped"}[rng.IntN(3)]
			var sites []*pnode
			root.faultSites(kind != "skip", &sites)
			if len(sites) > 0 {
				s := sites[rng.IntN(len(sites))]
				var inLen int
				if s.Op == "generator" {
					inLen = len(s.Xs)
				} else {
					inLen = len(s.Kids[0].model())
				}
				pos := 0
				if inLen > 0 {
					switch rng.IntN(4) {
					case 0:
						pos = 0
					case 1:
						pos = inLen - 1
					case 2:
						pos = inLen / 2
					default:
						pos = rng.IntN(inLen)
					}
				}
				s.Fault = &pfault{Pos: pos, Kind: kind}
				faulted = inLen > 0
			}
		}
		sink := sinks[rng.IntN(len(sinks))]
		want := root.model()
		desc := map[string]any{"tree": root.String(), "sink": sink, "expected": want}
		ops, async := root.count()
		viol := func(kind, detail string) {
			r.Violation("C02/"+sink+"/"+kind, i, desc, detail, nil)
		}
		r.Eval()
		ctx, cancel := context.WithCancel(context.Background())
		panicked, pv, pst := kit.Guard(func() {
			it := root.build(ctx)
			switch sink {
			case "readone":
				var got []int
				var firstErr error
				for k := 0; k < len(want)+5; k++ {
					v, err := it.ReadOne(ctx)
					if err != nil {
						firstErr = err
						break
					}
					got = append(got, v)
				}
				if !eqInts(got, want) {
					viol("sequence", fmt.Sprintf("ReadOne sequence %v, specification %v", got, want))
					return
				}
				if firstErr == nil {
					viol("no-end", fmt.Sprintf("no error after %d items, specification has %d", len(got), len(want)))
					return
				}
				for k := 0; k < 3; k++ {
					if v, err := it.ReadOne(ctx); err == nil {
						viol("yield-after-error", fmt.Sprintf("ReadOne returned %d with a nil error after it had reported %v", v, firstErr))
						return
					}
				}
				if it.Next(ctx) {
					viol("yield-after-error", "Next() is true after ReadOne reported an error")
				}
			case "slice":
				got, err := it.Slice(ctx)
				if !eqInts(got, want) {
					viol("sequence", fmt.Sprintf("Slice() %v, specification %v", got, want))
					return
				}
				if !faulted && err != nil {
					viol("spurious-error", fmt.Sprintf("Slice() reported %v for a pipeline without failures", err))
				}
			case "count":
				if got := it.Count(ctx); got != len(want) {
					viol("count", fmt.Sprintf("Count()=%d, specification %d", got, len(want)))
				}
			case "reduce":
				// fold with a reducer that skips one element (returning a
				// value that must be ignored)
				skipAt := -1
				if len(want) > 0 && rng.IntN(2) == 0 {
					skipAt = rng.IntN(len(want))
				}
				sum := 0
				for k, x := range want {
					if k != skipAt {
						sum = sum*2 + x
					}
				}
				k := -1
				got, err := it.Reduce(func(x, acc int) (int, error) {
					k++
					if k == skipAt {
						return -12345, fun.ErrIteratorSkip
					}
					return acc*2 + x, nil
				}).Run(ctx)
				if got != sum || err != nil {
					viol("fold", fmt.Sprintf("Reduce=%d err=%v, specification %d (skip@%d)", got, err, sum, skipAt))
				}
			case "itertool-reduce":
				// fold with a user function that skips one element and may stop
				skipAt, stopAt := -1, -1
				if len(want) > 0 {
					skipAt = rng.IntN(len(want))
					if rng.IntN(3) == 0 {
						stopAt = rng.IntN(len(want))
					}
				}
				exp := 1000
				for k, x := range want {
					if k == stopAt {
						break
					}
					if k == skipAt {
						continue
					}
					exp = exp*3 + x
				}
				k := -1
				got, err := itertool.Reduce(ctx, it, func(x, acc int) (int, error) {
					k++
					if k == stopAt {
						return 0, errInjected
					}
					if k == skipAt {
						return 0, fun.ErrIteratorSkip
					}
					return acc*3 + x, nil
				}, 1000)
				if got != exp {
					viol("fold", fmt.Sprintf("itertool.Reduce=%d err=%v, specification %d (skip@%d stop@%d)", got, err, exp, skipAt, stopAt))
				}
				if (stopAt >= 0) != (err != nil) {
					viol("fold-error", fmt.Sprintf("itertool.Reduce err=%v, reducer failed=%v", err, stopAt >= 0))
				}
			case "contains":
				needle := rng.IntN(8) - 3
				exp := false
				for _, x := range want {
					if x == needle {
						exp = true
					}
				}
				if got := itertool.Contains(ctx, needle, it); got != exp {
					viol("contains", fmt.Sprintf("Contains(%d)=%v, specification %v", needle, got, exp))
				}
			case "json":
				b, err := it.MarshalJSON()
				wb, _ := json.Marshal(want)
				if len(want) == 0 {
					wb = []byte("[]")
				}
				if err != nil || string(b) != string(wb) {
					viol("json", fmt.Sprintf("MarshalJSON=%s err=%v, specification %s", b, err, wb))
				}
			}
		})
		cancel()
		if panicked {
			viol("panic", fmt.Sprintf("panic: %v\n%s", pv, clipS(pst, 1500)))
			continue
		}
		if ops >= 2 && len(want) > 0 {
			r.Distinct(root.shape())
		}
		if faulted {
			r.Count("trees_with_fault", 1)
		}
		if async {
			r.Count("trees_with_async_stage", 1)
		}
		if r.WantSample() && ops >= 3 && len(want) > 1 {
			r.Sample(desc)
		}
	}
	_ = sort.Ints
}
