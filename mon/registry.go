// Package mon holds the runtime monitors, one file (group) per
// property. Each monitor generates its cases from the run's PRNG,
// drives the real library and reports violations with a stable
// signature.
package mon

import "verif/kit"

// Monitor runs the cases of one property that belong to this child.
type Monitor func(r *kit.Run)

// Registry maps property ids to monitors.
var Registry = map[string]Monitor{}

func register(id string, m Monitor) { Registry[id] = m }
