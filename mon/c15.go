package mon

import (
	"context"
	"errors"
	"fmt"
	"io"
	"math/rand/v2"
	"strings"
	"sync"
	"sync/atomic"
	"time"

	"github.com/tychoish/fun"
	"github.com/tychoish/fun/adt"
	"github.com/tychoish/fun/ers"
	"github.com/tychoish/fun/ft"

	"verif/kit"
)

// C15 — function wrappers keep their execution-count, exclusion and
// waiting contracts. Counters, a max-concurrency gauge and
// happens-before stamps inside the wrapped function are the monitor.

func init() { register("C15", runC15) }

// probe is the instrumented user function.
type probe struct {
	execs    atomic.Int64
	gauge    atomic.Int64
	maxGauge atomic.Int64
	mu       sync.Mutex
	ends     []int64 // end stamp of execution k
	results  []int   // result of execution k
	speed    kit.Speed
	seed     uint64
	errEvery int // every k-th execution returns an error (0 = never)
	slowAt   int // this execution takes long (0 = none)
	panicAt  int // this execution ends in a panic (0 = none)
}

var errProbe = errors.New("probe failure")

func (p *probe) run() (int, error) {
	g := p.gauge.Add(1)
	for {
		m := p.maxGauge.Load()
		if g <= m || p.maxGauge.CompareAndSwap(m, g) {
			break
		}
	}
	k := int(p.execs.Add(1))
	p.speed.Pace(k, 4, p.seed+uint64(k)*977)
	if k == p.slowAt {
		kit.Yields(150)
		kit.Speed(kit.SlowFirst).Pace(0, 1, 0)
	}
	res := k*10 + 1
	p.gauge.Add(-1)
	p.mu.Lock()
	p.ends = append(p.ends, kit.Stamp())
	p.results = append(p.results, res)
	p.mu.Unlock()
	if k == p.panicAt {
		panic(fmt.Errorf("exec %d panics: %w", k, errProbe))
	}
	if p.errEvery > 0 && k%p.errEvery == 0 {
		return res, fmt.Errorf("exec %d: %w", k, errProbe)
	}
	return res, nil
}

func (p *probe) endOf(k int) int64 {
	p.mu.Lock()
	defer p.mu.Unlock()
	if k-1 < len(p.ends) && k >= 1 {
		return p.ends[k-1]
	}
	return 0
}

// callable is a wrapped function in a uniform shape: it returns the
// observed value (0 when the wrapper has no value) and error.
type callable struct {
	name     string
	hasValue bool
	hasErr   bool
	call     func(ctx context.Context) (int, error)
}

type wrapKind int

const (
	wOnce wrapKind = iota
	wLimit
	wLock
)

// wrappers builds every flavour of a wrapper kind around the probe.
func wrappers(kind wrapKind, n int, p *probe) []callable {
	worker := fun.Worker(func(context.Context) error { _, err := p.run(); return err })
	operation := fun.Operation(func(context.Context) { _, _ = p.run() })
	producer := fun.Producer[int](func(context.Context) (int, error) { return p.run() })
	processor := fun.Processor[int](func(context.Context, int) error { _, err := p.run(); return err })
	handler := fun.Handler[int](func(int) { _, _ = p.run() })
	future := fun.Future[int](func() int { v, _ := p.run(); return v })
	transform := fun.Transform[int, int](func(context.Context, int) (int, error) { return p.run() })
	W := func(name string, w fun.Worker) callable {
		return callable{name: name, hasErr: true, call: func(ctx context.Context) (int, error) { return 0, w(ctx) }}
	}
	O := func(name string, o fun.Operation) callable {
		return callable{name: name, call: func(ctx context.Context) (int, error) { o(ctx); return 0, nil }}
	}
	P := func(name string, pr fun.Producer[int]) callable {
		return callable{name: name, hasValue: true, hasErr: true, call: func(ctx context.Context) (int, error) { return pr(ctx) }}
	}
	R := func(name string, pr fun.Processor[int]) callable {
		return callable{name: name, hasErr: true, call: func(ctx context.Context) (int, error) { return 0, pr(ctx, 7) }}
	}
	H := func(name string, h fun.Handler[int]) callable {
		return callable{name: name, call: func(context.Context) (int, error) { h(7); return 0, nil }}
	}
	F := func(name string, f fun.Future[int]) callable {
		return callable{name: name, hasValue: true, call: func(context.Context) (int, error) { return f(), nil }}
	}
	switch kind {
	case wOnce:
		ao, ao3 := &adt.Once[int]{}, &adt.Once[int]{}
		ao2 := adt.NewOnce(func() int { v, _ := p.run(); return v })
		mn := adt.Mnemonize(func() int { v, _ := p.run(); return v })
		fo := ft.Once(func() { _, _ = p.run() })
		fod := ft.OnceDo(func() int { v, _ := p.run(); return v })
		return []callable{
			W("Worker.Once", worker.Once()), O("Operation.Once", operation.Once()), P("Producer.Once", producer.Once()),
			R("Processor.Once", processor.Once()), H("Handler.Once", handler.Once()), F("Future.Once", future.Once()),
			F("adt.Once.Do+Resolve", func() int { ao.Do(func() int { v, _ := p.run(); return v }); return ao.Resolve() }),
			F("adt.NewOnce.Resolve", ao2.Resolve), F("adt.Mnemonize", mn),
			{name: "adt.Once.Do", call: func(context.Context) (int, error) { ao3.Do(func() int { v, _ := p.run(); return v }); return 0, nil }},
			{name: "ft.Once", call: func(context.Context) (int, error) { fo(); return 0, nil }},
			F("ft.OnceDo", fod),
			W("Worker.Lock.Once", worker.Lock().Once()), W("Worker.Once.Lock", worker.Once().Lock()),
			P("Producer.Once.Lock", producer.Once().Lock()), O("Operation.Lock.Once", operation.Lock().Once()),
		}
	case wLimit:
		return []callable{
			W("Worker.Limit", worker.Limit(n)), P("Producer.Limit", producer.Limit(n)), R("Processor.Limit", processor.Limit(n)),
			F("Future.Limit", future.Limit(n)), O("Operation.Limit", operation.Limit(n)),
			W("Worker.Limit.Lock", worker.Limit(n).Lock()), P("Producer.Lock.Limit", producer.Lock().Limit(n)),
		}
	default:
		mu := &sync.Mutex{}
		tl := transform.Lock()
		return []callable{
			W("Worker.Lock", worker.Lock()), O("Operation.Lock", operation.Lock()), P("Producer.Lock", producer.Lock()),
			R("Processor.Lock", processor.Lock()), H("Handler.Lock", handler.Lock()), F("Future.Lock", future.Lock()),
			{name: "Transform.Lock", hasValue: true, hasErr: true, call: func(ctx context.Context) (int, error) { return tl(ctx, 1) }},
			W("Worker.WithLock(shared)", worker.WithLock(mu)), O("Operation.WithLock(shared)", operation.WithLock(mu)),
			P("Producer.WithLock(shared)", producer.WithLock(mu)), R("Processor.WithLock(shared)", processor.WithLock(mu)),
			H("Handler.WithLock(shared)", handler.WithLock(mu)), F("Future.WithLock(shared)", future.WithLock(mu)),
		}
	}
}

func runC15(r *kit.Run) {
	n := int64(r.Scale(4000, 300000))
	if r.Build != "plain" {
		n /= 10
	}
	for i := int64(0); i < n && !r.Stopped(); i++ {
		if !r.Mine(i) {
			continue
		}
		rng := r.Rng("count", i)
		c15Counting(r, i, rng, wrapKind(i%3))
	}
	nr := int64(r.Scale(3000, 200000))
	for i := int64(0); i < nr && !r.Stopped(); i++ {
		if !r.Mine(i) {
			continue
		}
		c15Retry(r, i, r.Rng("retry", i))
	}
	no := int64(r.Scale(1500, 100000))
	for i := int64(0); i < no && !r.Stopped(); i++ {
		if !r.Mine(i) {
			continue
		}
		c15Order(r, i, r.Rng("order", i))
	}
	nb := int64(r.Scale(2500, 200000))
	if r.Build != "plain" {
		nb /= 10
	}
	for i := int64(0); i < nb && !r.Stopped(); i++ {
		if !r.Mine(i) {
			continue
		}
		c15Background(r, i, r.Rng("bg", i))
	}
}

type callRec struct {
	call, ret int64
	val       int
	err       error
}

func c15Counting(r *kit.Run, idx int64, rng *rand.Rand, kind wrapKind) {
	limitN := 1 + rng.IntN(5)
	p := &probe{speed: kit.RandSpeed(rng), seed: rng.Uint64()}
	if kind != wLock && rng.IntN(3) == 0 {
		p.errEvery = 1 + rng.IntN(2)
	}
	if kind == wLimit && rng.IntN(2) == 0 {
		p.slowAt = limitN // callers arrive while the final execution is still running
	}
	if kind == wOnce && rng.IntN(4) == 0 {
		// the single execution ends in a panic (which its caller recovers): it
		// still was the single execution
		p.panicAt, p.errEvery = 1, 0
	}
	ws := wrappers(kind, limitN, p)
	w := ws[rng.IntN(len(ws))]
	callers := 1 + rng.IntN(32)
	per := 1
	switch kind {
	case wLimit:
		// total calls below, at and above n
		switch rng.IntN(3) {
		case 0:
			callers = 1 + rng.IntN(limitN)
		case 1:
			callers = limitN
		default:
			callers = limitN + 1 + rng.IntN(12)
		}
		if rng.IntN(3) == 0 {
			per = 1 + rng.IntN(3)
		}
	case wLock:
		per = 1 + rng.IntN(6)
		callers = 2 + rng.IntN(12)
	default:
		if rng.IntN(2) == 0 {
			per = 1 + rng.IntN(3)
		}
	}
	procs := kit.ProcsFor(idx)
	recs := make([][]callRec, callers)
	var panicMsg atomic.Value
	ctx := context.Background()
	// Once: a third of the cases give every second caller a context that has
	// already ended, and the single execution takes a moment: those callers
	// still do not return before it has finished
	endedCtx := ctx
	if kind == wOnce && rng.IntN(3) == 0 {
		c, cc := context.WithCancel(ctx)
		cc()
		endedCtx = c
		if p.panicAt == 0 {
			p.slowAt = 1
		}
	}
	r.Eval()
	kit.WithProcs(procs, func() {
		bar := kit.NewBarrier(callers)
		var wg sync.WaitGroup
		for c := 0; c < callers; c++ {
			wg.Add(1)
			go func(c int) {
				defer wg.Done()
				defer func() {
					if pv := recover(); pv != nil {
						panicMsg.Store(fmt.Sprint(pv))
					}
				}()
				bar.Wait()
				ctx := ctx
				if c%2 == 1 {
					ctx = endedCtx
				}
				for j := 0; j < per; j++ {
					t0 := kit.Stamp()
					if p.panicAt > 0 {
						func() {
							defer func() {
								if pv := recover(); pv != nil {
									if e, ok := pv.(error); !ok || !errors.Is(e, errProbe) {
										panic(pv)
									}
								}
							}()
							_, _ = w.call(ctx)
						}()
						recs[c] = append(recs[c], callRec{call: t0, ret: kit.Stamp()})
						continue
					}
					v, err := w.call(ctx)
					recs[c] = append(recs[c], callRec{call: t0, ret: kit.Stamp(), val: v, err: err})
				}
			}(c)
		}
		wg.Wait()
	})
	calls := callers * per
	execs := int(p.execs.Load())
	desc := map[string]any{"wrapper": w.name, "callers": callers, "calls_per_caller": per, "limit_n": limitN, "speed": p.speed.String(),
		"error_every": p.errEvery, "execution_panics": p.panicAt > 0, "odd_callers_pass_an_ended_context": endedCtx != ctx, "gomaxprocs": procs, "executions": execs}
	viol := func(kind, detail string) { r.Violation("C15/"+w.name+"/"+kind, idx, desc, detail, nil) }
	if pm := panicMsg.Load(); pm != nil {
		viol("panic", pm.(string))
		return
	}
	switch kind {
	case wOnce:
		if execs != 1 {
			viol("execution-count", fmt.Sprintf("a Once wrapper executed %d times for %d calls", execs, calls))
			return
		}
		end := p.endOf(1)
		var firstVal int
		var firstErr error
		for c := range recs {
			for j, rc := range recs[c] {
				if rc.ret < end {
					viol("returned-before-execution-finished", fmt.Sprintf("caller %d call %d returned at stamp %d, the single execution ended at %d", c, j, rc.ret, end))
					return
				}
				if p.panicAt > 0 {
					continue
				}
				if c == 0 && j == 0 {
					firstVal, firstErr = rc.val, rc.err
				}
				if w.hasValue && rc.val != firstVal || w.hasErr && !sameErr(rc.err, firstErr) {
					viol("callers-disagree", fmt.Sprintf("caller %d call %d observed (%d,%v), another observed (%d,%v)", c, j, rc.val, rc.err, firstVal, firstErr))
					return
				}
			}
		}
		if p.panicAt > 0 {
			break
		}
		if w.hasValue && firstVal != 11 {
			viol("wrong-result", fmt.Sprintf("callers observed %d, the execution produced 11", firstVal))
			return
		}
		if w.hasErr && (firstErr != nil) != (p.errEvery == 1) {
			viol("wrong-result", fmt.Sprintf("callers observed error %v, the execution failed=%v", firstErr, p.errEvery == 1))
			return
		}
	case wLimit:
		want := limitN
		if calls < want {
			want = calls
		}
		if execs != want {
			viol("execution-count", fmt.Sprintf("Limit(%d) executed %d times for %d calls", limitN, execs, calls))
			return
		}
		if calls > limitN && w.hasValue {
			// every execution's result is returned to exactly one caller (the
			// one that ran it), except the last one, which every other call
			// observes: a caller never returns an earlier (or no) result
			// instead of waiting for the execution that reaches the limit
			seen := map[int]int{}
			for c := range recs {
				for _, rc := range recs[c] {
					seen[rc.val]++
				}
			}
			for k := 1; k < limitN; k++ {
				if seen[k*10+1] != 1 {
					viol("stale-result", fmt.Sprintf("the result of execution %d was returned to %d callers (exactly its executor may see it); results seen: %v", k, seen[k*10+1], seen))
					return
				}
			}
			if seen[limitN*10+1] != calls-(limitN-1) {
				viol("stale-result", fmt.Sprintf("%d of %d calls observed the last result %d; results seen: %v", seen[limitN*10+1], calls-(limitN-1), limitN*10+1, seen))
				return
			}
		}
		if calls > limitN && (w.hasValue || w.hasErr) {
			lastEnd := p.endOf(limitN)
			lastVal := limitN*10 + 1
			lastFailed := p.errEvery > 0 && limitN%p.errEvery == 0
			for c := range recs {
				for j, rc := range recs[c] {
					if rc.call > lastEnd { // started after the n-th execution ended
						if w.hasValue && rc.val != lastVal {
							viol("not-last-result", fmt.Sprintf("caller %d call %d started after the %d-th execution ended and observed %d, the last result is %d", c, j, limitN, rc.val, lastVal))
							return
						}
						if w.hasErr && (rc.err != nil) != lastFailed {
							viol("not-last-result", fmt.Sprintf("caller %d call %d started after the %d-th execution ended and observed error %v, the last execution failed=%v", c, j, limitN, rc.err, lastFailed))
							return
						}
						r.Count("limit_late_calls_checked", 1)
					}
				}
			}
		}
	case wLock:
		if execs != calls {
			viol("execution-count", fmt.Sprintf("a Lock wrapper executed %d times for %d calls", execs, calls))
			return
		}
		if m := p.maxGauge.Load(); m != 1 {
			viol("concurrent-executions", fmt.Sprintf("%d executions of the locked function overlapped", m))
			return
		}
	}
	if callers >= 2 {
		r.Distinct(fmt.Sprintf("%s|c=%s|per=%d|n=%d|sp=%s|p=%d|e=%d|pn=%d", w.name, lenClass(callers), per, limitN, p.speed, procs, p.errEvery, p.panicAt))
	}
	if r.WantSample() && callers > 3 {
		r.Sample(desc)
	}
}

func sameErr(a, b error) bool {
	if a == nil || b == nil {
		return a == nil && b == nil
	}
	return a.Error() == b.Error()
}

// c15Retry drives Retry(n) with a scripted sequence of outcomes.
func c15Retry(r *kit.Run, idx int64, rng *rand.Rand) {
	n := 1 + rng.IntN(6)
	ln := 1 + rng.IntN(8)
	script := make([]string, ln) // ok | err | skip | eof | abort | canceled
	for k := range script {
		switch x := rng.IntN(12); {
		case x < 5:
			script[k] = "err"
		case x < 7:
			script[k] = "ok"
		case x < 9:
			script[k] = "skip"
		case x == 9:
			script[k] = "eof"
		case x == 10:
			script[k] = "abort"
		default:
			script[k] = "canceled"
		}
	}
	attempts := 0
	var failures []error
	outcome := func() (int, error) {
		k := attempts
		attempts++
		if k >= len(script) {
			return 100 + k, nil
		}
		switch script[k] {
		case "ok":
			return 100 + k, nil
		case "skip":
			return 0, fun.ErrIteratorSkip
		case "eof":
			return 0, io.EOF
		case "abort":
			return 0, ers.ErrCurrentOpAbort
		case "canceled":
			return 0, context.Canceled
		}
		e := fmt.Errorf("attempt %d failed", k)
		failures = append(failures, e)
		return 0, e
	}
	flavour := rng.IntN(3)
	name := []string{"Worker.Retry", "Producer.Retry", "Processor.Retry"}[flavour]
	var res error
	var val int
	ctx := context.Background()
	r.Eval()
	panicked, pv, _ := kit.Guard(func() {
		switch flavour {
		case 0:
			res = fun.Worker(func(context.Context) error { _, e := outcome(); return e }).Retry(n)(ctx)
		case 1:
			val, res = fun.Producer[int](func(context.Context) (int, error) { return outcome() }).Retry(n)(ctx)
		default:
			res = fun.Processor[int](func(context.Context, int) error { _, e := outcome(); return e }).Retry(n, 3)(ctx)
		}
	})
	desc := map[string]any{"wrapper": name, "n": n, "script": script, "attempts": attempts, "result": fmt.Sprint(res)}
	viol := func(kind, detail string) { r.Violation("C15/"+name+"/"+kind, idx, desc, detail, nil) }
	if panicked {
		viol("panic", fmt.Sprint(pv))
		return
	}
	if attempts > n {
		viol("too-many-attempts", fmt.Sprintf("%d attempts with Retry(%d)", attempts, n))
		return
	}
	// where must it have stopped
	stopAt, stopKind := -1, ""
	for k := 0; k < n; k++ {
		s := "ok"
		if k < len(script) {
			s = script[k]
		}
		if s == "ok" || s == "eof" || s == "abort" || s == "canceled" {
			stopAt, stopKind = k, s
			break
		}
	}
	if stopAt >= 0 && attempts != stopAt+1 {
		viol("attempt-after-stop", fmt.Sprintf("attempt %d was a %s, but %d attempts were made", stopAt, stopKind, attempts))
		return
	}
	if stopAt < 0 && attempts != n {
		viol("gave-up-early", fmt.Sprintf("only %d of %d attempts were made although none succeeded or terminated", attempts, n))
		return
	}
	switch {
	case stopKind == "ok":
		if res != nil {
			viol("failure-reported-despite-success", fmt.Sprintf("attempt %d succeeded, result is %v", stopAt, res))
			return
		}
		if flavour == 1 && val != 100+stopAt {
			viol("wrong-value", fmt.Sprintf("Producer.Retry returned %d, the successful attempt produced %d", val, 100+stopAt))
			return
		}
	case stopAt < 0:
		// no success, no terminating error: every failure is findable
		if len(failures) > 0 && res == nil {
			viol("failures-lost", fmt.Sprintf("no attempt succeeded and %d failed, result is nil", len(failures)))
			return
		}
		for _, f := range failures {
			if !errors.Is(res, f) {
				viol("failures-lost", fmt.Sprintf("no attempt succeeded; %v is not found in the result %v", f, res))
				return
			}
		}
	}
	r.Distinct(fmt.Sprintf("%s|n=%d|%s", name, n, strings.Join(script[:min(len(script), n)], ",")))
	if r.WantSample() && ln > 2 {
		r.Sample(desc)
	}
}

// c15Order checks the documented order of Join / PreHook / PostHook.
func c15Order(r *kit.Run, idx int64, rng *rand.Rand) {
	var log []string
	var mu sync.Mutex
	rec := func(s string) { mu.Lock(); log = append(log, s); mu.Unlock() }
	ctx, cancelCtx := context.WithCancel(context.Background())
	defer cancelCtx()
	failAt := -1
	// cancelAt: the part with this index cancels the context it runs with
	// and returns normally; the parts after it must not run
	cancelAt := -1
	switch rng.IntN(4) {
	case 0:
		failAt = rng.IntN(3)
	case 1:
		cancelAt = rng.IntN(3)
	}
	mkW := func(k int) fun.Worker {
		return func(context.Context) error {
			rec(fmt.Sprintf("w%d", k))
			if k == cancelAt {
				cancelCtx()
			}
			if k == failAt {
				return errProbe
			}
			return nil
		}
	}
	mkO := func(k int) fun.Operation {
		return func(context.Context) {
			rec(fmt.Sprintf("o%d", k))
			if k == cancelAt {
				cancelCtx()
			}
		}
	}
	mkH := func(k int) fun.Handler[int] { return func(int) { rec(fmt.Sprintf("h%d", k)) } }
	mkR := func(k int) fun.Processor[int] {
		return func(context.Context, int) error {
			rec(fmt.Sprintf("r%d", k))
			if k == cancelAt {
				cancelCtx()
			}
			if k == failAt {
				return errProbe
			}
			return nil
		}
	}
	hook := func() { rec("hook") }
	hookOp := fun.Operation(func(context.Context) { rec("hook") })
	var want []string
	var got error
	name := ""
	r.Eval()
	panicked, pv, _ := kit.Guard(func() {
		switch c := rng.IntN(12); c {
		case 0:
			name = "Worker.Join"
			got = mkW(0).Join(mkW(1), mkW(2))(ctx)
			for k := 0; k < 3; k++ {
				want = append(want, fmt.Sprintf("w%d", k))
				if k == failAt || k == cancelAt {
					break
				}
			}
		case 1:
			name = "Operation.Join"
			mkO(0).Join(mkO(1), mkO(2))(ctx)
			want = []string{"o0", "o1", "o2"}
			if cancelAt >= 0 {
				want = want[:cancelAt+1]
			}
		case 2:
			name = "Processor.Join"
			got = mkR(0).Join(mkR(1), mkR(2))(ctx, 1)
			for k := 0; k < 3; k++ {
				want = append(want, fmt.Sprintf("r%d", k))
				if k == failAt || k == cancelAt {
					break
				}
			}
		case 3:
			name = "Handler.Join"
			mkH(0).Join(mkH(1))(1)
			want = []string{"h0", "h1"}
		case 4:
			name = "Handler.PreHook"
			mkH(0).PreHook(mkH(1))(1)
			want = []string{"h1", "h0"}
		case 5:
			name = "Handler.Chain"
			mkH(0).Chain(mkH(1), mkH(2))(1)
			want = []string{"h0", "h1", "h2"}
		case 6:
			name = "Worker.PreHook"
			got = mkW(0).PreHook(hookOp)(ctx)
			want = []string{"hook", "w0"}
		case 7:
			name = "Worker.PostHook"
			got = mkW(0).PostHook(hook)(ctx)
			want = []string{"w0", "hook"}
		case 8:
			name = "Operation.PreHook"
			mkO(0).PreHook(hookOp)(ctx)
			want = []string{"hook", "o0"}
		case 9:
			name = "Operation.PostHook"
			mkO(0).PostHook(hook)(ctx)
			want = []string{"o0", "hook"}
		case 10:
			name = "Producer.PreHook+PostHook"
			pr := fun.Producer[int](func(context.Context) (int, error) { rec("p"); return 5, nil })
			v, e := pr.PreHook(hookOp).PostHook(func() { rec("post") })(ctx)
			got = e
			if v != 5 {
				got = fmt.Errorf("value %d", v)
			}
			want = []string{"hook", "p", "post"}
		case 11:
			name = "Future/Processor hooks"
			f := fun.Future[int](func() int { rec("f"); return 1 })
			_ = f.PreHook(func() { rec("pre") }).PostHook(func() { rec("post") })()
			_ = mkR(0).PreHook(hookOp).PostHook(func() { rec("rpost") })(ctx, 1)
			want = []string{"pre", "f", "post", "hook", "r0", "rpost"}
		}
	})
	joins := name == "Worker.Join" || name == "Operation.Join" || name == "Processor.Join"
	if cancelAt >= 0 && !joins {
		// the other wrappers make no statement about an expired context:
		// the case counts as an ordinary one if nothing cancelled
		if ctx.Err() != nil {
			return
		}
	}
	desc := map[string]any{"wrapper": name, "fail_at": failAt, "cancel_from_inside_part": cancelAt, "call_log": log, "documented_order": want}
	if panicked {
		r.Violation("C15/"+name+"/panic", idx, desc, fmt.Sprint(pv), nil)
		return
	}
	if strings.Join(log, ",") != strings.Join(want, ",") {
		r.Violation("C15/"+name+"/order", idx, desc, fmt.Sprintf("parts ran as %v, documented order %v", log, want), nil)
		return
	}
	expectErr := failAt >= 0 && (name == "Worker.Join" || name == "Processor.Join" || (failAt == 0 && (name == "Worker.PreHook" || name == "Worker.PostHook")))
	if cancelAt < 0 && name != "Producer.PreHook+PostHook" && name != "Future/Processor hooks" && (got != nil) != expectErr {
		r.Violation("C15/"+name+"/error", idx, desc, fmt.Sprintf("result %v, a part failed=%v", got, expectErr), nil)
		return
	}
	if name == "Producer.PreHook+PostHook" && got != nil {
		r.Violation("C15/"+name+"/error", idx, desc, fmt.Sprint(got), nil)
		return
	}
	r.Distinct(fmt.Sprintf("order|%s|f=%d|c=%d", name, failAt, cancelAt))
}

// c15Background: waiters returned by Launch / Signal / Background /
// StartGroup do not complete before the background execution has.
func c15Background(r *kit.Run, idx int64, rng *rand.Rand) {
	speed := kit.RandSpeed(rng)
	seed := rng.Uint64()
	n := 1 + rng.IntN(6) // group size for StartGroup flavours
	fail := rng.IntN(3) == 0
	procs := kit.ProcsFor(idx)
	var ends []int64
	var emu sync.Mutex
	var started atomic.Int64
	body := func() error {
		k := int(started.Add(1))
		speed.Pace(k, n, seed+uint64(k))
		if rng2 := seed >> 7; rng2%3 == 0 {
			kit.Yields(20)
		}
		emu.Lock()
		ends = append(ends, kit.Stamp())
		emu.Unlock()
		if fail {
			return fmt.Errorf("bg %d: %w", k, errProbe)
		}
		return nil
	}
	worker := fun.Worker(func(context.Context) error { return body() })
	operation := fun.Operation(func(context.Context) { _ = body() })
	ctx, cancel := context.WithCancel(context.Background())
	defer cancel()
	flavour := rng.IntN(10)
	name := []string{"Operation.Launch", "Operation.Signal", "Worker.Launch", "Worker.Signal", "Worker.Background", "Worker.StartGroup",
		"Operation.StartGroup+Wait", "Processor.Background", "Producer.Background", "Producer.Launch"}[flavour]
	expectExecs := 1
	var waitErr error
	var observed []error
	var omu sync.Mutex
	var retStamp int64
	gotValue, wantValue := 0, 0
	r.Eval()
	done := make(chan struct{})
	var panicMsg atomic.Value
	// a second, impatient waiter on the same group: it gives up (its own
	// context ends) while the work is still going on; the patient one stays
	impDelay, impOn := rng.IntN(12), rng.IntN(2) == 0
	impatient := func(wait func(context.Context)) {
		if !impOn {
			return
		}
		octx, ocancel := context.WithCancel(context.Background())
		go wait(octx)
		go func() { kit.Yields(impDelay); ocancel() }()
	}
	kit.WithProcs(procs, func() {
		go func() {
			defer close(done)
			defer func() {
				if pv := recover(); pv != nil {
					panicMsg.Store(fmt.Sprint(pv))
				}
			}()
			switch flavour {
			case 0:
				w := operation.Launch(ctx)
				kit.Yields(rng.IntN(5))
				w(ctx)
			case 1:
				<-operation.Signal(ctx)
			case 2:
				w := worker.Launch(ctx)
				waitErr = w(ctx)
			case 3:
				waitErr = <-worker.Signal(ctx)
			case 4:
				w := worker.Background(ctx, func(e error) { omu.Lock(); observed = append(observed, e); omu.Unlock() })
				w(ctx)
			case 5:
				expectExecs = n
				w := worker.StartGroup(ctx, n)
				impatient(func(octx context.Context) { _ = w(octx) })
				waitErr = w(ctx)
			case 6:
				expectExecs = n
				wg := &fun.WaitGroup{}
				operation.StartGroup(ctx, wg, n)
				impatient(wg.Wait)
				wg.Wait(ctx)
			case 7:
				pr := fun.Processor[int](func(context.Context, int) error { return body() })
				waitErr = pr.Background(ctx, 3)(ctx)
			case 8:
				pd := fun.Producer[int](func(context.Context) (int, error) { return 42, body() })
				wantValue = 42
				waitErr = pd.Background(ctx, func(v int) { gotValue = v })(ctx)
			case 9:
				// a launched producer streams values: each value is
				// received only after it was produced
				expectExecs = n
				cnt := 0
				pd := fun.Producer[int](func(context.Context) (int, error) {
					if cnt >= n {
						return 0, io.EOF
					}
					cnt++
					_ = started.Add(1)
					emu.Lock()
					ends = append(ends, kit.Stamp())
					emu.Unlock()
					return cnt, nil
				})
				out := pd.Launch(ctx)
				for k := 1; k <= n; k++ {
					v, err := out(ctx)
					t := kit.Stamp()
					emu.Lock()
					produced := len(ends) >= k && ends[k-1] < t
					emu.Unlock()
					if err != nil || v != k || !produced {
						waitErr = fmt.Errorf("read %d returned (%d,%v), produced-before=%v", k, v, err, produced)
						return
					}
				}
				fail = false
			}
			retStamp = kit.Stamp()
		}()
		ok := kit.WaitUntil(c14Watchdog/4, func() bool {
			select {
			case <-done:
				return true
			default:
				return false
			}
		})
		if !ok {
			if c, q := kit.Quiesce(c14Watchdog); isClosed(done) {
				// returned late (slow machine): judged below as usual
			} else if q {
				r.Violation("C15/"+name+"/waiter-never-returns", idx, map[string]any{"wrapper": name}, fmt.Sprintf("the waiter is still blocked at quiescence: %v", c.Describe()), nil)
			} else {
				r.Inconclusive("C15 background scenario did not finish and is not quiescent")
			}
			cancel()
			<-done
		}
	})
	select {
	case <-done:
	default:
		return
	}
	desc := map[string]any{"wrapper": name, "group": n, "speed": speed.String(), "background_fails": fail, "gomaxprocs": procs}
	viol := func(kind, detail string) { r.Violation("C15/"+name+"/"+kind, idx, desc, detail, nil) }
	if pm := panicMsg.Load(); pm != nil {
		viol("panic", pm.(string))
		return
	}
	emu.Lock()
	ne := len(ends)
	var maxEnd int64
	for _, e := range ends {
		if e > maxEnd {
			maxEnd = e
		}
	}
	emu.Unlock()
	if flavour == 9 {
		if waitErr != nil {
			viol("stream", waitErr.Error())
			return
		}
	} else {
		if ne != expectExecs || maxEnd > retStamp {
			viol("waiter-returned-early", fmt.Sprintf("the waiter returned at stamp %d with a live context; %d of %d background executions had finished (latest end stamp %d)", retStamp, ne, expectExecs, maxEnd))
			return
		}
		switch flavour {
		case 2, 3, 5, 7, 8:
			if (waitErr != nil) != fail || (fail && !errors.Is(waitErr, errProbe)) {
				viol("result", fmt.Sprintf("the waiter returned %v, the background function failed=%v", waitErr, fail))
				return
			}
		case 4:
			omu.Lock()
			no := len(observed)
			var oe error
			if no > 0 {
				oe = observed[0]
			}
			omu.Unlock()
			if no != 1 || (oe != nil) != fail {
				viol("result", fmt.Sprintf("the error handler saw %d values (%v), background failed=%v", no, oe, fail))
				return
			}
		}
		if flavour == 8 && gotValue != wantValue {
			viol("result", fmt.Sprintf("handler got %d, produced %d", gotValue, wantValue))
			return
		}
	}
	r.Distinct(fmt.Sprintf("bg|%s|n=%d|sp=%s|p=%d|f=%v", name, n, speed, procs, fail))
	r.Count("background_waits_checked", 1)
	_ = time.Second
}
