package mon

import (
	"context"
	"errors"
	"fmt"
	"io"
	"math/rand/v2"
	"strings"
	"sync"
	"sync/atomic"
	"time"

	"github.com/tychoish/fun"
	"github.com/tychoish/fun/adt"
	"github.com/tychoish/fun/dt"
	"github.com/tychoish/fun/itertool"

	"verif/kit"
)

// C04 — pipelines terminate: no stuck consumer, no leaked goroutine.
// After the consumer stopped in one of the documented ways the process
// is brought to quiescence and the goroutine census must not contain a
// goroutine with a frame in (or created by) the module.

func init() { register("C04", runC04) }

const c04Watchdog = 20 * time.Second

var c04Constructs = []string{"Split", "Buffer", "ParallelBuffer", "Map", "ProcessParallel", "GenerateParallel", "MergeIterators", "Chain",
	"MergeSlices", "MergeSliceIterators", "BufferedChannel", "dt.Map.Iterator", "dt.Map.Keys", "dt.Map.Values", "adt.Map.Iterator", "adt.Map.Keys", "adt.Map.Values",
	"Map(Buffer)", "Buffer(Map)", "ParallelBuffer(Merge)", "Chain(Buffer,Split1)", "ParallelBuffer", "GenerateParallel", "ParallelBuffer"}

var c04Stops = []string{"exhaust", "close", "cancel", "close-then-cancel", "close-while-parked", "concurrent-close", "cancel-while-parked", "cancel-in-waitgroup-window", "deadline"}

type c04Case struct {
	Construct string `json:"construct"`
	N         int    `json:"n"`
	K         int    `json:"consume_before_stop"`
	W         int    `json:"workers"`
	Stop      string `json:"stop"`
	Procs     int    `json:"gomaxprocs"`
	Endless   bool   `json:"source_blocks_after_n"`
	Order     []int  `json:"split_close_order,omitempty"`
	Opts      string `json:"worker_group_options,omitempty"`
	Honour    bool   `json:"generator_checks_its_context,omitempty"`
}

// c04Source yields 1..n and then either ends or blocks until its
// context is cancelled (a never-ending source).
func c04Source(n int, endless bool) *fun.Iterator[int] {
	var i atomic.Int64
	return fun.Generator(func(ctx context.Context) (int, error) {
		k := int(i.Add(1))
		if k > n {
			if endless {
				<-ctx.Done()
				return 0, ctx.Err()
			}
			return 0, io.EOF
		}
		return k, nil
	})
}

type c04Out struct {
	its  []*fun.Iterator[int] // outputs to consume / close
	ch   <-chan int           // BufferedChannel
	done chan error           // ProcessParallel result
}

func c04Build(ctx context.Context, c c04Case, rng *rand.Rand) c04Out {
	src := func() *fun.Iterator[int] { return c04Source(c.N, c.Endless) }
	ident := func(_ context.Context, v int) (int, error) { return v, nil }
	nws := []fun.OptionProvider[*fun.WorkerGroupConf]{fun.WorkerGroupConfNumWorkers(c.W)}
	switch c.Opts {
	case "continue-on-error":
		nws = append(nws, fun.WorkerGroupConfContinueOnError())
	case "include-context-errors":
		nws = append(nws, fun.WorkerGroupConfIncludeContextErrors())
	case "continue-on-error+include-context-errors":
		nws = append(nws, fun.WorkerGroupConfContinueOnError(), fun.WorkerGroupConfIncludeContextErrors())
	}
	one := func(it *fun.Iterator[int]) c04Out { return c04Out{its: []*fun.Iterator[int]{it}} }
	m := map[int]int{}
	for k := 1; k <= c.N; k++ {
		m[k] = k
	}
	am := &adt.Map[int, int]{}
	for k := 1; k <= c.N; k++ {
		am.Store(k, k)
	}
	parts := func() []*fun.Iterator[int] {
		var its []*fun.Iterator[int]
		if c.N == 0 && c.W%2 == 0 && !c.Endless {
			return nil // nothing to merge / chain at all: still a finite input
		}
		k := 1 + c.W%4
		for s := 0; s < k; s++ {
			cnt := c.N / k
			if s == k-1 {
				cnt = c.N - (k-1)*(c.N/k)
			}
			its = append(its, c04Source(cnt, c.Endless && s == k-1))
		}
		return its
	}
	slices := func() [][]int {
		var out [][]int
		if c.N == 0 && c.W%2 == 0 && !c.Endless {
			return nil
		}
		for s := 0; s < 3; s++ {
			var sl []int
			for k := 0; k < c.N/3+1; k++ {
				sl = append(sl, s*100+k)
			}
			out = append(out, sl)
		}
		return out
	}
	switch c.Construct {
	case "Split":
		return c04Out{its: src().Split(c.W)}
	case "Buffer":
		return one(src().Buffer(c.W))
	case "ParallelBuffer":
		return one(src().ParallelBuffer(c.W))
	case "Map":
		return one(fun.Map(src(), ident, nws...))
	case "ProcessParallel":
		done := make(chan error, 1)
		w := src().ProcessParallel(func(context.Context, int) error { return nil }, nws...)
		go func() { done <- w.Run(ctx) }()
		return c04Out{done: done}
	case "GenerateParallel":
		var i atomic.Int64
		gen := fun.Producer[int](func(ctx context.Context) (int, error) {
			if c.Honour {
				if err := ctx.Err(); err != nil {
					return 0, err
				}
			}
			k := int(i.Add(1))
			if k > c.N {
				if c.Endless {
					<-ctx.Done()
					return 0, ctx.Err()
				}
				return 0, io.EOF
			}
			return k, nil
		})
		return one(gen.GenerateParallel(nws...))
	case "MergeIterators":
		return one(fun.MergeIterators(parts()...))
	case "Chain":
		return one(itertool.Chain(parts()...))
	case "MergeSlices":
		return one(itertool.MergeSlices(slices()...))
	case "MergeSliceIterators":
		return one(itertool.MergeSliceIterators(fun.SliceIterator(slices())))
	case "BufferedChannel":
		return c04Out{ch: src().BufferedChannel(ctx, c.W-1)}
	case "dt.Map.Iterator":
		return one(fun.ConvertIterator(dt.NewMap(m).Iterator(), fun.Converter(func(p dt.Pair[int, int]) int { return p.Key })))
	case "dt.Map.Keys":
		return one(dt.NewMap(m).Keys())
	case "dt.Map.Values":
		return one(dt.NewMap(m).Values())
	case "adt.Map.Iterator":
		return one(fun.ConvertIterator(am.Iterator(), fun.Converter(func(p dt.Pair[int, int]) int { return p.Key })))
	case "adt.Map.Keys":
		return one(am.Keys())
	case "adt.Map.Values":
		return one(am.Values())
	case "Map(Buffer)":
		return one(fun.Map(src().Buffer(c.W), ident, nws...))
	case "Buffer(Map)":
		return one(fun.Map(src(), ident, nws...).Buffer(2))
	case "ParallelBuffer(Merge)":
		return one(fun.MergeIterators(parts()...).ParallelBuffer(c.W))
	case "Chain(Buffer,Split1)":
		return one(itertool.Chain(src().Buffer(1), c04Source(c.N, false).Split(1)[0]))
	}
	panic("c04Build " + c.Construct)
}

func runC04(r *kit.Run) {
	n := int64(r.Scale(6000, 300000))
	for i := int64(0); i < n && !r.Stopped(); i++ {
		if !r.Mine(i) {
			continue
		}
		c04Scenario(r, i, r.Rng("scn", i))
	}
	nb := int64(r.Scale(160, 8000))
	for i := int64(0); i < nb && !r.Stopped(); i++ {
		if !r.Mine(i) {
			continue
		}
		c04Batch(r, i, r.Rng("batch", i))
	}
	ns := int64(r.Scale(48, 2400))
	for i := int64(0); i < ns && !r.Stopped(); i++ {
		if !r.Mine(i) {
			continue
		}
		c04Shared(r, i, r.Rng("shared", i))
	}
	nf := int64(r.Scale(48, 2400))
	for i := int64(0); i < nf && !r.Stopped(); i++ {
		if !r.Mine(i) {
			continue
		}
		c04Failing(r, i, r.Rng("failing", i))
	}
}

// c04Shared: several consumers share the output of one buffered stage
// whose source stalls (in a call that ignores its context) after a few
// items. The consumers race for the last buffered items and park; then
// the context they passed to ReadOne is cancelled: every one of them must
// return although the source is still stalled. Many trials per case,
// the stall is released only after the verdict.
func c04Shared(r *kit.Run, idx int64, rng *rand.Rand) {
	construct := []string{"Buffer", "ParallelBuffer", "Buffer", "Map(Buffer)"}[int(idx)%4]
	readers := 2 + rng.IntN(3)
	procs := []int{2, 4, 16, 16}[rng.IntN(4)]
	trials := 250
	desc := map[string]any{"mode": "shared-readers", "construct": construct, "readers": readers, "trials": trials, "stop": "cancel the readers' context while the source is stalled", "gomaxprocs": procs}
	r.EvalN(int64(trials))
	r.Current(idx, fmt.Sprintf("shared %v", desc))
	inconclusive, problem := "", ""
	done := 0
	kit.WithProcs(procs, func() {
		if base, q := kit.Quiesce(c04Watchdog); !q || len(relevantLeft(base)) > 0 {
			inconclusive = "the process is not clean before the case"
			return
		}
		for t := 0; t < trials && problem == "" && inconclusive == ""; t++ {
			n := 1 + rng.IntN(8)
			nbuf := 1 + rng.IntN(4)
			slow := rng.IntN(3)
			gate := make(chan struct{})
			var i atomic.Int64
			src := fun.Generator(func(context.Context) (int, error) {
				k := int(i.Add(1))
				if k > n {
					<-gate // stalled: this call does not look at its context
					return 0, io.EOF
				}
				if slow > 0 {
					kit.Yields(slow)
				}
				return k, nil
			})
			var it *fun.Iterator[int]
			switch construct {
			case "Buffer":
				it = src.Buffer(nbuf)
			case "ParallelBuffer":
				it = src.ParallelBuffer(nbuf)
			default:
				it = fun.Map(src.Buffer(nbuf), func(_ context.Context, v int) (int, error) { return v, nil }, fun.WorkerGroupConfNumWorkers(2)).Buffer(nbuf)
			}
			ctx, cancel := context.WithCancel(context.Background())
			var consumed, returned atomic.Int64
			bar := kit.NewBarrier(readers)
			for c := 0; c < readers; c++ {
				go func() {
					bar.Wait()
					for {
						if _, err := it.ReadOne(ctx); err != nil {
							break
						}
						consumed.Add(1)
					}
					returned.Add(1)
				}()
			}
			if met, q, cs := kit.Await(5*time.Second, c04Watchdog, func() bool { return consumed.Load() == int64(n) }); !met {
				if q {
					problem = fmt.Sprintf("trial %d: %d of %d items reached the %d consumers of one %s(%d) output and nothing moves any more; at quiescence: %v", t, consumed.Load(), n, readers, construct, nbuf, clipStrs(cs.Describe(), 10))
				} else {
					inconclusive = "items not consumed, not quiescent"
				}
				close(gate)
				cancel()
				return
			}
			kit.Yields(rng.IntN(6))
			cancel()
			met, q, cs := kit.Await(5*time.Second, c04Watchdog, func() bool { return returned.Load() == int64(readers) })
			if !met {
				if q {
					problem = fmt.Sprintf("trial %d: %d of %d consumers blocked in ReadOne on one %s(%d) output did not return after their context was cancelled (the source is stalled after %d items); at quiescence: %v", t, int64(readers)-returned.Load(), readers, construct, nbuf, n, clipStrs(cs.Describe(), 10))
				} else {
					inconclusive = "consumers not released, not quiescent"
				}
			}
			close(gate)
			_ = it.Close()
			done++
		}
		if problem != "" || inconclusive != "" {
			return
		}
		cs, q := kit.Quiesce(c04Watchdog)
		if !q {
			inconclusive = "not quiescent after the case"
			return
		}
		if left := relevantLeft(cs); len(left) > 0 {
			problem = fmt.Sprintf("%d goroutine(s) started on behalf of %d %s pipelines are still alive at quiescence after the stalled sources were released: %v", len(left), trials, construct, clipStrs(cs.Describe(), 10))
		}
	})
	if inconclusive != "" {
		r.Inconclusive("C04 shared readers: " + inconclusive)
		return
	}
	if problem != "" {
		sig := "consumer-stuck"
		if strings.Contains(problem, "still alive") {
			sig = "goroutine-leak"
		}
		r.Violation("C04/"+construct+"/"+sig, idx, desc, problem, nil)
		return
	}
	r.Count("shared_reader_trials", int64(done))
	r.Distinct(fmt.Sprintf("shared|%s|r=%d|p=%d", construct, readers, procs))
}

// c04Failing: worker-group stages whose user function fails (abort mode)
// almost at once, with many workers, so that the failure lands while the
// group is still being started. The consumer must reach the end (an error
// or io.EOF), the Worker must return, and nothing may be left behind.
func c04Failing(r *kit.Run, idx int64, rng *rand.Rand) {
	construct := []string{"GenerateParallel", "Map", "ProcessParallel", "GenerateParallel"}[int(idx)%4]
	w := []int{2, 8, 32, 64}[rng.IntN(4)]
	procs := []int{1, 2, 4, 16}[rng.IntN(4)]
	trials := 120
	desc := map[string]any{"mode": "failing-function", "construct": construct, "workers": w, "trials": trials, "gomaxprocs": procs}
	r.EvalN(int64(trials))
	r.Current(idx, fmt.Sprintf("failing %v", desc))
	inconclusive, problem := "", ""
	boom := errors.New("boom")
	kit.WithProcs(procs, func() {
		if base, q := kit.Quiesce(c04Watchdog); !q || len(relevantLeft(base)) > 0 {
			inconclusive = "the process is not clean before the case"
			return
		}
		var finished atomic.Int64
		var cur atomic.Int64
		go func() {
			for t := 0; t < trials; t++ {
				cur.Store(int64(t))
				okBefore := rng.IntN(3)
				ctx, cancel := context.WithCancel(context.Background())
				var i atomic.Int64
				fail := func() error {
					if int(i.Add(1)) > okBefore {
						return boom
					}
					return nil
				}
				nw := fun.WorkerGroupConfNumWorkers(w)
				switch construct {
				case "GenerateParallel":
					it := fun.Producer[int](func(context.Context) (int, error) {
						if err := fail(); err != nil {
							return 0, err
						}
						return 1, nil
					}).GenerateParallel(nw)
					for {
						if _, err := it.ReadOne(ctx); err != nil {
							break
						}
					}
					_ = it.Close()
				case "Map":
					it := fun.Map(c04Source(w*4+8, false), func(_ context.Context, v int) (int, error) { return v, fail() }, nw)
					for {
						if _, err := it.ReadOne(ctx); err != nil {
							break
						}
					}
					_ = it.Close()
				default:
					_ = c04Source(w*4+8, false).ProcessParallel(func(context.Context, int) error { return fail() }, nw).Run(ctx)
				}
				cancel() // the context stays live until the trial has ended
				finished.Add(1)
			}
		}()
		met, q, cs := kit.Await(30*time.Second, c04Watchdog, func() bool { return finished.Load() == int64(trials) })
		if !met {
			if q {
				problem = fmt.Sprintf("trial %d: a %s stage with %d workers whose function fails right away never ended (no error, no io.EOF) although its context is live; at quiescence: %v", cur.Load(), construct, w, clipStrs(cs.Describe(), 10))
			} else {
				inconclusive = "trials did not finish, not quiescent"
			}
			return
		}
		cs, q = kit.Quiesce(c04Watchdog)
		if !q {
			inconclusive = "not quiescent after the case"
			return
		}
		if left := relevantLeft(cs); len(left) > 0 {
			problem = fmt.Sprintf("%d goroutine(s) started on behalf of %d failing %s stages are still alive at quiescence: %v", len(left), trials, construct, clipStrs(cs.Describe(), 10))
		}
	})
	if inconclusive != "" {
		r.Inconclusive("C04 failing function: " + inconclusive)
		return
	}
	if problem != "" {
		sig := "no-termination"
		if strings.Contains(problem, "still alive") {
			sig = "goroutine-leak"
		}
		r.Violation("C04/"+construct+"/"+sig, idx, desc, problem, nil)
		return
	}
	r.Count("failing_function_trials", int64(trials))
	r.Distinct(fmt.Sprintf("failing|%s|w=%d|p=%d", construct, w, procs))
}

func clipStrs(d []string, n int) []string {
	if len(d) > n {
		return d[:n]
	}
	return d
}

// c04Batch runs many early-stopped pipelines back to back (several
// senders racing on a buffered pipe while the consumer leaves) and then
// checks once, at quiescence, that nothing was left behind. The census
// is amortised over the batch, so rare races are reached.
func c04Batch(r *kit.Run, idx int64, rng *rand.Rand) {
	construct := []string{"ParallelBuffer", "GenerateParallel", "Map", "Buffer", "MergeIterators", "Split", "ParallelBuffer", "ParallelBuffer(Merge)"}[int(idx)%8]
	w := []int{2, 3, 4, 8}[rng.IntN(4)]
	procs := []int{2, 4, 16, 16}[rng.IntN(4)]
	size := 150
	stop := []string{"close", "cancel", "close-then-cancel"}[rng.IntN(3)]
	desc := map[string]any{"mode": "batch", "construct": construct, "workers": w, "pipelines": size, "stop": stop, "gomaxprocs": procs}
	r.EvalN(int64(size))
	r.Current(idx, fmt.Sprintf("batch %v", desc))
	inconclusive, problem := "", ""
	kit.WithProcs(procs, func() {
		if base, q := kit.Quiesce(c04Watchdog); !q || len(relevantLeft(base)) > 0 {
			inconclusive = "the process is not clean before the batch"
			return
		}
		var wg sync.WaitGroup
		var cmu sync.Mutex
		var cancels []context.CancelFunc
		defer func() {
			for _, c := range cancels {
				c()
			}
		}()
		seeds := make([]uint64, 4)
		for g := range seeds {
			seeds[g] = rng.Uint64()
		}
		for g := 0; g < 4; g++ {
			wg.Add(1)
			go func(g int) {
				defer wg.Done()
				lr := rand.New(rand.NewPCG(seeds[g], 7))
				for p := 0; p < size/4; p++ {
					ctx, cancel := context.WithCancel(context.Background())
					c := c04Case{Construct: construct, N: 20 + lr.IntN(40), W: w}
					out := c04Build(ctx, c, lr)
					k := lr.IntN(12)
					if lr.IntN(2) == 0 {
						// two consumers make the first advance of the same
						// iterator at the same moment (the lazily created
						// cancel scope must still be one)
						bar := kit.NewBarrier(2)
						var cw sync.WaitGroup
						for c := 0; c < 2; c++ {
							cw.Add(1)
							go func() {
								defer cw.Done()
								bar.Wait()
								for j := 0; j < 1+k/2; j++ {
									if _, err := out.its[0].ReadOne(ctx); err != nil {
										return
									}
								}
							}()
						}
						cw.Wait()
					} else {
						for j := 0; j < k; j++ {
							if _, err := out.its[0].ReadOne(ctx); err != nil {
								break
							}
							if lr.IntN(3) == 0 {
								kit.Yields(lr.IntN(4))
							}
						}
					}
					switch stop {
					case "close":
						for _, it := range out.its {
							_ = it.Close()
						}
					case "cancel":
						cancel()
					default:
						for _, it := range out.its {
							_ = it.Close()
						}
						cancel()
					}
					cmu.Lock()
					cancels = append(cancels, cancel) // released only after the verdict
					cmu.Unlock()
				}
			}(g)
		}
		d := make(chan struct{})
		go func() { wg.Wait(); close(d) }()
		if !kit.WaitUntil(c04Watchdog, func() bool {
			select {
			case <-d:
				return true
			default:
				return false
			}
		}) {
			inconclusive = "batch drivers did not finish"
			return
		}
		cs, q := kit.Quiesce(c04Watchdog)
		if !q {
			inconclusive = "not quiescent after the batch"
			return
		}
		if left := relevantLeft(cs); len(left) > 0 {
			d := cs.Describe()
			if len(d) > 12 {
				d = d[:12]
			}
			problem = fmt.Sprintf("%d goroutine(s) started on behalf of %d early-stopped %s pipelines are still alive at quiescence: %v", len(left), size, construct, d)
		}
	})
	if inconclusive != "" {
		r.Inconclusive("C04 batch: " + inconclusive)
		return
	}
	if problem != "" {
		r.Violation("C04/"+construct+"/goroutine-leak", idx, desc, problem, nil)
		return
	}
	r.Count("batch_pipelines_stopped_early", int64(size))
	r.Distinct(fmt.Sprintf("batch|%s|%s|w=%d|p=%d", construct, stop, w, procs))
}

func relevantLeft(c kit.Census) []kit.G {
	var out []kit.G
	for _, g := range c.All {
		if g.Relevant {
			out = append(out, g)
		}
	}
	return out
}

func c04Scenario(r *kit.Run, idx int64, rng *rand.Rand) {
	c := c04Case{Construct: c04Constructs[int(idx)%len(c04Constructs)]}
	c.W = []int{1, 2, 3, 4, 8}[rng.IntN(5)]
	if rng.IntN(3) == 0 {
		c.N = rng.IntN(9)
	} else {
		c.N = rng.IntN(60)
	}
	c.Stop = c04Stops[rng.IntN(len(c04Stops))]
	// cut point: every k for small n, classes otherwise
	switch {
	case c.N <= 8:
		c.K = rng.IntN(c.N + 1)
	default:
		c.K = []int{0, 1, c.N / 2, c.N - 1, c.N}[rng.IntN(5)]
	}
	c.Procs = kit.ProcsFor(idx / int64(len(c04Constructs)))
	isMap := strings.Contains(c.Construct, "dt.Map") || strings.Contains(c.Construct, "adt.Map") || strings.HasPrefix(c.Construct, "MergeSlice")
	if c.Stop == "close-while-parked" || c.Stop == "cancel-while-parked" {
		if isMap {
			c.Stop = "close"
		} else {
			c.Endless, c.K = true, c.N
		}
	}
	wgWindow := c.Stop == "cancel-in-waitgroup-window"
	if wgWindow {
		// constructs whose closing goroutine parks in a WaitGroup; the
		// source never ends so that it really parks
		switch c.Construct {
		case "Map", "ProcessParallel", "GenerateParallel", "MergeIterators", "ParallelBuffer", "Map(Buffer)", "ParallelBuffer(Merge)":
			c.Endless = true
			if c.K > c.N {
				c.K = c.N
			}
		default:
			c.Stop, wgWindow = "cancel", false
		}
	}
	switch c.Construct {
	case "Map", "ProcessParallel", "GenerateParallel", "Map(Buffer)", "Buffer(Map)":
		c.Opts = []string{"", "", "continue-on-error", "include-context-errors", "continue-on-error+include-context-errors"}[rng.IntN(5)]
		c.Honour = rng.IntN(2) == 0
	}
	if c.Construct == "BufferedChannel" || c.Construct == "ProcessParallel" {
		switch c.Stop {
		case "exhaust", "deadline":
		case "cancel-while-parked", "cancel-in-waitgroup-window":
		default:
			c.Stop, c.Endless = "cancel", false
		}
	}
	if c.Construct == "Split" {
		c.Order = rng.Perm(c.W)
	}
	r.Eval()
	r.Current(idx, fmt.Sprintf("%+v", c))

	// the context of the first advance: cancellable, and its "deadline" can
	// be made to pass without a timer
	base, expire := kit.NewExpiringContext()
	ctx, cancel := context.WithCancel(base)
	defer cancel()
	var problem, kind string
	note := func(k, s string) {
		if problem == "" {
			kind, problem = k, s
		}
	}
	started := 0
	inconclusive := ""
	var wgHits atomic.Int64
	withHook := func(fn func()) {
		if !wgWindow {
			fn()
			return
		}
		kit.WithHook(func(p string) {
			if p != "fun.WaitGroup.Wait.before-cond-wait" || wgHits.Add(1) != 1 {
				return
			}
			// a waiter of the pipeline is between its predicate check and
			// cond.Wait: the consumer's context ends exactly now
			cancel()
			for k := 0; k < 150; k++ {
				kit.Yields(5)
				st := "gone"
				for _, g := range kit.TakeCensus().All {
					if strings.Contains(g.Stack, "WaitGroup).Wait.func1") && strings.HasPrefix(g.State, "chan receive") {
						st = g.State // a helper that has not noticed the cancel yet
					}
				}
				if st == "gone" {
					break
				}
			}
		}, fn)
	}
	kit.WithProcs(c.Procs, func() {
		withHook(func() {
			// the process must be clean before the scenario
			if base, q := kit.Quiesce(c04Watchdog); !q || len(relevantLeft(base)) > 0 {
				inconclusive = "the process is not clean before the scenario (a previous scenario leaked or is still running)"
				return
			}
			out := c04Build(ctx, c, rng)
			// consume k items
			readN := func(it *fun.Iterator[int], k int) (int, error) {
				for j := 0; j < k; j++ {
					if _, err := it.ReadOne(ctx); err != nil {
						return j, err
					}
				}
				return k, nil
			}
			switch {
			case out.ch != nil:
				for j := 0; j < c.K; j++ {
					if _, ok := <-out.ch; !ok {
						break
					}
				}
			case out.done != nil:
			default:
				if _, err := readN(out.its[0], c.K); err != nil && !errors.Is(err, io.EOF) && !(wgWindow && ctx.Err() != nil) {
					note("unexpected-error", fmt.Sprintf("reading item before the cut point returned %v", err))
				}
			}
			// how many module goroutines are alive now (coverage: the stop
			// really has something to stop)
			started = len(relevantLeft(kit.TakeCensus()))

			closeAll := func() {
				order := c.Order
				if len(order) != len(out.its) {
					order = nil
					for i := range out.its {
						order = append(order, i)
					}
				}
				for _, i := range order {
					d := make(chan struct{})
					go func() { _ = out.its[i].Close(); _ = out.its[i].Close(); close(d) }()
					if met, q, cs := kit.Await(c04Watchdog/4, c04Watchdog, func() bool { return isClosed(d) }); !met {
						if q {
							note("close-blocks", fmt.Sprintf("Close() of output %d does not return; at quiescence: %v", i, cs.Describe()))
						} else {
							inconclusive = "Close() not returned, not quiescent"
						}
					}
				}
			}
			switch c.Stop {
			case "exhaust":
				switch {
				case out.ch != nil:
					for range out.ch {
					}
				case out.done != nil:
					if met, q, cs := kit.Await(c04Watchdog/4, c04Watchdog, func() bool { return len(out.done) == 1 }); !met {
						if q {
							note("no-termination", fmt.Sprintf("ProcessParallel over a finite input does not return; at quiescence: %v", cs.Describe()))
						} else {
							inconclusive = "ProcessParallel not returned, not quiescent"
						}
					} else if err := <-out.done; err != nil {
						note("unexpected-error", fmt.Sprintf("ProcessParallel returned %v", err))
					}
				default:
					var wg sync.WaitGroup
					for i, it := range out.its {
						wg.Add(1)
						go func(i int, it *fun.Iterator[int]) {
							defer wg.Done()
							for {
								if _, err := it.ReadOne(ctx); err != nil {
									if !errors.Is(err, io.EOF) {
										note("no-eof", fmt.Sprintf("output %d of a finite pipeline ended with %v instead of io.EOF", i, err))
									}
									return
								}
							}
						}(i, it)
					}
					d := make(chan struct{})
					go func() { wg.Wait(); close(d) }()
					if met, q, cs := kit.Await(c04Watchdog/4, c04Watchdog, func() bool { return isClosed(d) }); !met {
						if q {
							note("no-termination", fmt.Sprintf("a finite input never led to io.EOF; at quiescence: %v", cs.Describe()))
						} else {
							inconclusive = "exhausting consumer did not finish, not quiescent"
						}
						cancel()
						<-d
					}
				}
			case "close":
				closeAll()
			case "cancel":
				cancel()
			case "deadline":
				expire()
			case "cancel-in-waitgroup-window":
				// the hook cancels when a WaitGroup waiter reaches its park
				// window; if none does (nothing waits), cancel here
				if !kit.WaitUntil(200*time.Millisecond, func() bool { return wgHits.Load() > 0 }) {
					cancel()
				} else {
					r.Count("waitgroup_window_cancels", 1)
				}
			case "close-then-cancel":
				closeAll()
				cancel()
			case "concurrent-close":
				var wg sync.WaitGroup
				for _, it := range out.its {
					for k := 0; k < 2; k++ {
						wg.Add(1)
						go func(it *fun.Iterator[int]) { defer wg.Done(); _ = it.Close() }(it)
					}
				}
				d := make(chan struct{})
				go func() { wg.Wait(); close(d) }()
				if met, q, cs := kit.Await(c04Watchdog/4, c04Watchdog, func() bool { return isClosed(d) }); !met {
					if q {
						note("close-blocks", fmt.Sprintf("two concurrent Close() calls do not both return; at quiescence: %v", cs.Describe()))
					} else {
						inconclusive = "concurrent Close not returned, not quiescent"
					}
				}
			case "close-while-parked", "cancel-while-parked":
				// the consumer parks in ReadOne on a source that never ends;
				// Close from a second goroutine (or cancel) must release it
				ret := make(chan error, 1)
				switch {
				case out.ch != nil:
					go func() { _, ok := <-out.ch; _ = ok; ret <- nil }()
				case out.done != nil:
					go func() { ret <- <-out.done }()
				default:
					go func() { _, err := out.its[0].ReadOne(ctx); ret <- err }()
				}
				if _, q := kit.Quiesce(c04Watchdog); !q {
					inconclusive = "not quiescent while the consumer is expected to be parked"
					cancel()
					return
				}
				if len(ret) == 1 {
					note("returned-without-stop", fmt.Sprintf("the consumer returned (%v) although the source has not ended and nothing stopped it", <-ret))
					break
				}
				if c.Stop == "close-while-parked" && out.its != nil {
					closeAll()
				} else {
					cancel()
				}
				if met, q, cs := kit.Await(c04Watchdog/4, c04Watchdog, func() bool { return len(ret) == 1 }); !met {
					if q {
						note("consumer-stuck", fmt.Sprintf("the consumer blocked in ReadOne did not return after %s; at quiescence: %v", c.Stop, cs.Describe()))
					} else {
						inconclusive = "parked consumer not released, not quiescent"
					}
					cancel()
				}
			}
			if inconclusive != "" {
				cancel()
				return
			}
			// verdict: no goroutine of the module may remain
			cs, q := kit.Quiesce(c04Watchdog)
			if !q {
				// not quiescent for the whole watchdog: is a goroutine of the
				// pipeline running on (a loop that treats the stop as
				// "continue") instead of exiting?
				if sp := kit.Spinners(3*time.Second, 30); len(sp) > 0 && problem == "" {
					var tops []string
					for _, g := range sp {
						tops = append(tops, "g"+g.ID+" ["+g.State+"] "+g.TopFun)
					}
					note("goroutine-spins-after-stop", fmt.Sprintf("%v after %s the process is still not quiescent: %d goroutine(s) started on behalf of the pipeline were runnable in every one of 30 censuses over 3 more seconds, never parked and never gone: %v", c04Watchdog, c.Stop, len(sp), tops))
					expire()
					cancel()
					r.Halt() // nothing further can be judged in this process
					return
				}
				inconclusive = "not quiescent after the stop"
				cancel()
				return
			}
			if left := relevantLeft(cs); len(left) > 0 && problem == "" {
				note("goroutine-leak", fmt.Sprintf("%d goroutine(s) started on behalf of the pipeline are still alive at quiescence after %s: %v", len(left), c.Stop, cs.Describe()))
			}
			// clean up whatever is left so that the next scenario starts clean
			cancel()
			for _, it := range out.its {
				_ = it.Close()
			}
			if out.ch != nil {
				d := make(chan struct{})
				go func() {
					for range out.ch {
					}
					close(d)
				}()
				kit.WaitUntil(c04Watchdog/4, func() bool {
					select {
					case <-d:
						return true
					default:
						return false
					}
				})
			}
			kit.Quiesce(c04Watchdog)
		})
	})
	if inconclusive != "" {
		r.Inconclusive("C04 scenario: " + inconclusive)
		return
	}
	if problem != "" {
		r.Violation("C04/"+c.Construct+"/"+kind, idx, c, problem, nil)
		return
	}
	if started > 0 {
		r.Distinct(fmt.Sprintf("%s|%s|k=%s|w=%d", c.Construct, c.Stop, cutClass(c.K, c.N), c.W))
		r.Count("scenarios_with_live_background_goroutines_at_stop", 1)
	}
	r.Max("max:module_goroutines_alive_at_stop", int64(started))
	if r.WantSample() && started > 1 {
		r.Sample(c)
	}
}

func cutClass(k, n int) string {
	switch {
	case k == 0:
		return "0"
	case k >= n:
		return "n"
	case k == 1:
		return "1"
	case k == n-1:
		return "n-1"
	}
	return "mid"
}
