package mon

import (
	"context"
	"errors"
	"fmt"
	"io"
	"math/rand/v2"
	"runtime"
	"sync"
	"sync/atomic"
	"time"

	"github.com/tychoish/fun"
	"github.com/tychoish/fun/pubsub"
	"github.com/tychoish/fun/srv"

	"verif/kit"
)

// C11 — orchestrator and service wrappers run all submitted work and
// collect all errors. Per-service / per-job invocation counters with
// stamps; unmet "it is started / it ran" expectations are decided at
// quiescence.

func init() { register("C11", runC11) }

const c11Watchdog = 20 * time.Second

func runC11(r *kit.Run) {
	n := int64(r.Scale(480, 360000))
	for i := int64(0); i < n && !r.Stopped(); i++ {
		if !r.Mine(i) {
			continue
		}
		if i%40 == 39 {
			c11RunningWait(r, i, r.Rng("rw", i))
			continue
		}
		switch i % 4 {
		case 0:
			c11Orchestrator(r, i, r.Rng("orch", i))
		case 1:
			c11Group(r, i, r.Rng("group", i))
		case 2:
			c11Pool(r, i, r.Rng("pool", i))
		default:
			c11Cleanup(r, i, r.Rng("cleanup", i))
		}
	}
}

// c11RunningWait: whoever observes Running() == true (as the
// orchestrator does for services handed to it while their owner starts
// them) can Wait for the service: Wait returns only after Run ended,
// never ErrServiceNotStarted.
func c11RunningWait(r *kit.Run, idx int64, rng *rand.Rand) {
	rounds := 1500
	procs := []int{2, 4, 16}[rng.IntN(3)]
	r.Eval()
	bad := ""
	kit.WithProcs(procs, func() {
		for i := 0; i < rounds && bad == ""; i++ {
			release := make(chan struct{})
			var runEnd atomic.Int64
			s := &srv.Service{Run: func(context.Context) error { <-release; runEnd.Store(kit.Stamp()); return nil }}
			var wg sync.WaitGroup
			wg.Add(2)
			var werr error
			var wret int64
			go func() { defer wg.Done(); _ = s.Start(context.Background()) }()
			go func() {
				defer wg.Done()
				// the premise is an observation of Running() == true; the
				// owner's goroutine may be scheduled arbitrarily late
				for !s.Running() {
					kit.Yields(1)
				}
				done := make(chan struct{})
				go func() { werr = s.Wait(); wret = kit.Stamp(); close(done) }()
				kit.Yields(3)
				close(release)
				<-done
			}()
			wg.Wait()
			if errors.Is(werr, srv.ErrServiceNotStarted) {
				bad = fmt.Sprintf("round %d: Wait() invoked while Running() was true returned %v instead of waiting for the service", i, werr)
			} else if wret < runEnd.Load() {
				bad = fmt.Sprintf("round %d: Wait() returned (stamp %d) before Run ended (%d)", i, wret, runEnd.Load())
			}
		}
	})
	if bad != "" {
		r.Violation("C11/Service/running-but-not-waitable", idx, map[string]any{"mode": "Wait by an observer of Running() while the owner is starting the service", "rounds": rounds, "gomaxprocs": procs}, bad, nil)
		return
	}
	r.Count("running_wait_rounds", int64(rounds))
	r.Distinct(fmt.Sprintf("running-wait|p=%d", procs))
}

// unit is one service or job under observation.
type c11Unit struct {
	ID       int
	Outcome  string // ok | error | panic | block
	State    string // fresh | running | finished (orchestrator) ; accepted flag for jobs
	When     string // before | after (orchestrator start)
	runs     atomic.Int64
	started  atomic.Int64 // stamp of Run start
	ended    atomic.Int64 // stamp of Run end
	ctxDone  atomic.Int64 // stamp at which its context was observed done (block outcome)
	err      error
	svc      *srv.Service
	accepted atomic.Bool
	addRet   atomic.Int64
	slow     bool
}

func (u *c11Unit) body(ctx context.Context, release <-chan struct{}) error {
	u.runs.Add(1)
	u.started.Store(kit.Stamp())
	defer func() { u.ended.Store(kit.Stamp()) }()
	if u.slow {
		kit.Yields(60)
	}
	switch u.Outcome {
	case "block":
		<-ctx.Done()
		u.ctxDone.Store(kit.Stamp())
		return nil
	case "error":
		if release != nil {
			<-release
		}
		return u.err
	case "panic":
		if release != nil {
			<-release
		}
		panic(u.err)
	}
	if release != nil {
		<-release
	}
	return nil
}

func (u *c11Unit) fails() bool { return u.Outcome == "error" || u.Outcome == "panic" }

func unitsDesc(us []*c11Unit) []string {
	var out []string
	for _, u := range us {
		out = append(out, fmt.Sprintf("#%d %s/%s/%s runs=%d", u.ID, u.Outcome, u.State, u.When, u.runs.Load()))
	}
	return out
}

func isClosed(ch chan struct{}) bool {
	select {
	case <-ch:
		return true
	default:
		return false
	}
}

// ---- Orchestrator -----------------------------------------------------------

func c11Orchestrator(r *kit.Run, idx int64, rng *rand.Rand) {
	n := rng.IntN(13)
	procs := kit.ProcsFor(idx / 4)
	adders := 1 + rng.IntN(4)
	parent, cancelParent := context.WithCancel(context.Background())
	defer cancelParent()
	release := make(chan struct{}) // externally started services end when this is closed
	// immediate: the orchestrator is shut down right after the last Add
	// returned, while accepted services may still be queued
	immediate := rng.IntN(3) == 0
	endMode := []string{"close", "parent-cancel"}[rng.IntN(2)]
	var units []*c11Unit
	for i := 0; i < n; i++ {
		u := &c11Unit{ID: i, Outcome: []string{"ok", "error", "panic", "block", "ok", "error"}[rng.IntN(6)], State: []string{"fresh", "fresh", "fresh", "running", "finished", "racing", "racing"}[rng.IntN(7)], When: []string{"before", "after"}[rng.IntN(2)]}
		u.err = fmt.Errorf("service %d failed", i)
		if immediate && (u.State == "running" || u.State == "racing") {
			u.State = "finished" // externally owned services have ended before the shutdown (DESIGN 7f)
		}
		if u.State != "fresh" && u.Outcome == "block" {
			u.Outcome = "ok" // an externally owned service ends on its own (DESIGN 7f)
		}
		uu := u
		var rel <-chan struct{}
		if u.State == "running" || u.State == "racing" {
			rel = release
		}
		u.svc = &srv.Service{Name: fmt.Sprintf("svc-%d", i), Run: func(ctx context.Context) error { return uu.body(ctx, rel) }}
		units = append(units, u)
	}
	desc := func() map[string]any {
		return map[string]any{"mode": "orchestrator", "services": unitsDesc(units), "adders": adders, "gomaxprocs": procs, "shutdown_immediately_after_last_add": immediate, "end": endMode}
	}
	r.Eval()
	r.Current(idx, fmt.Sprintf("C11 orch n=%d", n))
	problem, kind, inconclusive := "", "", ""
	note := func(k, s string) {
		if problem == "" {
			kind, problem = k, s
		}
	}
	var waitErr error
	var waitStamp int64
	kit.WithProcs(procs, func() {
		// external owners: start (and finish) services before they are added
		for _, u := range units {
			switch u.State {
			case "running":
				if err := u.svc.Start(parent); err != nil {
					note("harness", "external Start failed: "+err.Error())
				}
			case "finished":
				_ = u.svc.Start(parent)
				_ = u.svc.Wait()
			}
		}
		or := &srv.Orchestrator{Name: "c11"}
		var racers sync.WaitGroup
		add := func(us []*c11Unit) {
			var wg sync.WaitGroup
			for a := 0; a < adders; a++ {
				wg.Add(1)
				go func(a int) {
					defer wg.Done()
					for k, u := range us {
						if k%adders == a {
							if u.State == "racing" {
								// an external owner starts the service at the same moment
								uu := u
								racers.Add(1)
								go func() { defer racers.Done(); kit.Yields(int(uu.ID) % 5); _ = uu.svc.Start(parent) }()
							}
							if err := or.Add(u.svc); err != nil {
								note("add-rejected", fmt.Sprintf("Add(service %d) returned %v on a live orchestrator", u.ID, err))
							}
						}
					}
				}(a)
			}
			wg.Wait()
		}
		var before, after []*c11Unit
		for _, u := range units {
			if u.When == "before" {
				before = append(before, u)
			} else {
				after = append(after, u)
			}
		}
		add(before)
		if err := or.Start(parent); err != nil {
			note("start", "orchestrator Start: "+err.Error())
			return
		}
		add(after)
		// every fresh service is started by the orchestrator
		allStarted := func() bool {
			for _, u := range units {
				if (u.State == "fresh" || u.State == "racing") && u.started.Load() == 0 {
					return false
				}
			}
			return true
		}
		racers.Wait()
		if immediate {
			// no waiting: whatever was accepted must still be handled
		} else if !kit.WaitUntil(c11Watchdog/4, allStarted) {
			if cs, q := kit.Quiesce(c11Watchdog); q && !allStarted() {
				var missing []int
				for _, u := range units {
					if u.State == "fresh" && u.started.Load() == 0 {
						missing = append(missing, u.ID)
					}
				}
				note("service-never-started", fmt.Sprintf("services %v were added to a live orchestrator and are not started at quiescence: %v", missing, cs.Describe()))
			} else if !q {
				inconclusive = "services not all started, not quiescent"
			}
		}
		// externally owned services end on their own, then the orchestrator is shut down
		close(release)
		// (their owner waits for them: only then is the orchestrator shut down)
		for _, u := range units {
			if u.State == "running" || (u.State == "racing" && u.started.Load() != 0) {
				od := make(chan struct{})
				go func(u *c11Unit) { _ = u.svc.Wait(); close(od) }(u)
				if !kit.WaitUntil(c11Watchdog/4, func() bool { return isClosed(od) }) {
					inconclusive = "an externally owned service did not finish"
				}
			}
		}
		if !immediate && rng.IntN(2) == 0 {
			kit.Quiesce(c11Watchdog)
		}
		if endMode == "close" {
			or.Service().Close()
		} else {
			cancelParent()
		}
		wd := make(chan struct{})
		go func() { waitErr = or.Wait(); waitStamp = kit.Stamp(); close(wd) }()
		if !kit.WaitUntil(c11Watchdog/2, func() bool { return isClosed(wd) }) {
			if cs, q := kit.Quiesce(c11Watchdog); isClosed(wd) {
				// returned late (slow machine): not a verdict
			} else if q {
				note("wait-never-returns", fmt.Sprintf("Orchestrator.Wait does not return after Close; %v", cs.Describe()))
			} else {
				inconclusive = "orchestrator Wait not returned, not quiescent"
			}
			cancelParent()
			<-wd
		}
	})
	if inconclusive != "" {
		r.Inconclusive("C11 orchestrator: " + inconclusive)
		return
	}
	viol := func(k, d string) { r.Violation("C11/Orchestrator/"+k, idx, desc(), d, nil) }
	if problem != "" {
		viol(kind, problem)
		return
	}
	for _, u := range units {
		if immediate && u.State == "fresh" && u.runs.Load() == 0 {
			// accepted, but the orchestrator was being shut down: "started at
			// most once" allows zero; observed, not judged (its failure cannot
			// be missing from Wait because it never ran)
			r.Count("fresh_services_not_started_after_immediate_shutdown", 1)
			continue
		}
		if u.runs.Load() > 1 {
			viol("started-twice", fmt.Sprintf("service %d was run %d times", u.ID, u.runs.Load()))
			return
		}
		if u.runs.Load() == 1 && (u.ended.Load() == 0 || u.ended.Load() > waitStamp) {
			viol("wait-returned-before-service", fmt.Sprintf("Orchestrator.Wait returned at stamp %d, service %d (%s, %s) ended at %d", waitStamp, u.ID, u.State, u.Outcome, u.ended.Load()))
			return
		}
		if u.fails() && u.runs.Load() == 1 {
			if !errors.Is(waitErr, u.err) {
				viol("error-lost", fmt.Sprintf("service %d (%s, %s) failed with %v, Orchestrator.Wait returned %v", u.ID, u.State, u.Outcome, u.err, waitErr))
				return
			}
		}
	}
	if n >= 2 {
		r.Distinct(fmt.Sprintf("orch|n=%s|adders=%d|p=%d|%s", lenClass(n), adders, procs, stateMix(units)))
	}
	r.Count("orchestrator_services", int64(n))
	if r.WantSample() && n > 2 {
		r.Sample(desc())
	}
}

func stateMix(us []*c11Unit) string {
	m := map[string]int{}
	for _, u := range us {
		m[u.State[:2]+u.Outcome[:2]+u.When[:1]]++
	}
	s := ""
	for _, k := range []string{"fr", "ru", "fi"} {
		for kk := range m {
			if kk[:2] == k {
				s += kk + ","
				break
			}
		}
	}
	return s
}

// ---- Group --------------------------------------------------------------------

func c11Group(r *kit.Run, idx int64, rng *rand.Rand) {
	n := rng.IntN(9)
	procs := kit.ProcsFor(idx / 4)
	var units []*c11Unit
	var svcs []*srv.Service
	for i := 0; i < n; i++ {
		u := &c11Unit{ID: i, Outcome: []string{"ok", "error", "panic", "block", "block"}[rng.IntN(5)], State: "fresh", When: "-"}
		u.err = fmt.Errorf("member %d failed", i)
		uu := u
		u.svc = &srv.Service{Name: fmt.Sprintf("member-%d", i), Run: func(ctx context.Context) error { return uu.body(ctx, nil) }}
		units = append(units, u)
		svcs = append(svcs, u.svc)
	}
	// members that somebody else has already started (a service shared
	// with another owner): the group cannot start them again but awaits
	// them like the others. They run with their owner's context and end
	// when the owner releases them, after the group has been told to end.
	release := make(chan struct{})
	var running []*c11Unit
	if rng.IntN(3) == 0 {
		for _, u := range units {
			if len(running) < 2 && rng.IntN(3) == 0 {
				u.Outcome = []string{"ok", "error", "panic"}[rng.IntN(3)]
				u.State = "running"
				uu := u
				u.svc.Run = func(ctx context.Context) error { return uu.body(ctx, release) }
				running = append(running, u)
			}
		}
	}
	endMode := []string{"close", "parent-cancel"}[rng.IntN(2)]
	desc := func() map[string]any {
		return map[string]any{"mode": "group", "members": unitsDesc(units), "end": endMode, "gomaxprocs": procs}
	}
	r.Eval()
	r.Current(idx, fmt.Sprintf("C11 group n=%d", n))
	problem, kind, inconclusive := "", "", ""
	var waitErr error
	var waitStamp, endStamp int64
	parent, cancelParent := context.WithCancel(context.Background())
	defer cancelParent()
	kit.WithProcs(procs, func() {
		for _, u := range running {
			uu := u
			if err := u.svc.Start(context.Background()); err != nil {
				kind, problem = "start", "owner's Start of a fresh service: "+err.Error()
				return
			}
			kit.WaitUntil(c11Watchdog, func() bool { return uu.started.Load() != 0 })
		}
		defer func() {
			// the owner of the shared members waits for them in any case
			select {
			case <-release:
			default:
				close(release)
			}
			for _, u := range running {
				_ = u.svc.Wait()
			}
		}()
		g := srv.Group(fun.SliceIterator(svcs))
		if err := g.Start(parent); err != nil {
			kind, problem = "start", err.Error()
			return
		}
		allStarted := func() bool {
			for _, u := range units {
				if u.started.Load() == 0 {
					return false
				}
			}
			return true
		}
		if !kit.WaitUntil(c11Watchdog/4, allStarted) {
			if cs, q := kit.Quiesce(c11Watchdog); q && !allStarted() {
				kind, problem = "member-never-started", fmt.Sprintf("not every member is started at quiescence: %v", cs.Describe())
			} else if !q {
				inconclusive = "members not started, not quiescent"
			}
		}
		// members stay alive until they return or the group's context ends
		if _, q := kit.Quiesce(c11Watchdog); q && problem == "" {
			for _, u := range units {
				if u.Outcome == "block" && u.ctxDone.Load() != 0 {
					kind, problem = "member-cancelled-early", fmt.Sprintf("member %d's context ended (stamp %d) although neither it returned nor the group's context ended", u.ID, u.ctxDone.Load())
				}
			}
		}
		endStamp = kit.Stamp()
		if endMode == "close" {
			g.Close()
		} else {
			cancelParent()
		}
		wd := make(chan struct{})
		go func() { waitErr = g.Wait(); waitStamp = kit.Stamp(); close(wd) }()
		if len(running) > 0 {
			// the group has been told to end but shared members still run:
			// give its Wait every chance to return early, then let the
			// owner release them (the stamps decide below)
			kit.Quiesce(c11Watchdog)
			close(release)
		}
		if !kit.WaitUntil(c11Watchdog/2, func() bool { return isClosed(wd) }) {
			if cs, q := kit.Quiesce(c11Watchdog); isClosed(wd) {
				// returned late (slow machine): not a verdict
			} else if q {
				if problem == "" {
					kind, problem = "wait-never-returns", fmt.Sprintf("Group.Wait does not return after %s; %v", endMode, cs.Describe())
				}
			} else {
				inconclusive = "group Wait not returned, not quiescent"
			}
			cancelParent()
			<-wd
		}
	})
	if inconclusive != "" {
		r.Inconclusive("C11 group: " + inconclusive)
		return
	}
	viol := func(k, d string) { r.Violation("C11/Group/"+k, idx, desc(), d, nil) }
	if problem != "" {
		viol(kind, problem)
		return
	}
	for _, u := range units {
		if u.runs.Load() != 1 {
			viol("member-run-count", fmt.Sprintf("member %d was run %d times", u.ID, u.runs.Load()))
			return
		}
		if u.ended.Load() == 0 || u.ended.Load() > waitStamp {
			viol("wait-returned-before-member", fmt.Sprintf("Group.Wait returned at %d, member %d ended at %d", waitStamp, u.ID, u.ended.Load()))
			return
		}
		if u.Outcome == "block" && u.ctxDone.Load() < endStamp {
			viol("member-cancelled-early", fmt.Sprintf("member %d's context ended at stamp %d, before the group was ended (%d)", u.ID, u.ctxDone.Load(), endStamp))
			return
		}
		if u.fails() && !errors.Is(waitErr, u.err) {
			viol("error-lost", fmt.Sprintf("member %d failed with %v, Group.Wait returned %v", u.ID, u.err, waitErr))
			return
		}
	}
	if n >= 2 {
		r.Distinct(fmt.Sprintf("group|n=%d|%s|p=%d|%s", n, endMode, procs, stateMix(units)))
	}
	r.Count("group_members", int64(n))
}

// ---- WorkerPool / HandlerWorkerPool ---------------------------------------------

func c11Pool(r *kit.Run, idx int64, rng *rand.Rand) {
	n := rng.IntN(41)
	w := 1 + rng.IntN(8)
	procs := kit.ProcsFor(idx / 4)
	handlerPool := rng.IntN(2) == 0
	limited := rng.IntN(3) == 0
	adders := 1 + rng.IntN(4)
	var queue *pubsub.Queue[fun.Worker]
	if limited {
		lim := 1 + rng.IntN(6)
		queue, _ = pubsub.NewQueue[fun.Worker](pubsub.QueueOptions{HardLimit: lim, SoftQuota: lim})
	} else {
		queue = pubsub.NewUnlimitedQueue[fun.Worker]()
	}
	var units []*c11Unit
	for i := 0; i < n; i++ {
		u := &c11Unit{ID: i, Outcome: []string{"ok", "ok", "error", "panic"}[rng.IntN(4)], When: []string{"before", "after"}[rng.IntN(2)], State: "job"}
		u.err = fmt.Errorf("job %d failed", i)
		units = append(units, u)
	}
	var hmu sync.Mutex
	var handled []error
	handler := func(err error) {
		if err != nil {
			hmu.Lock()
			handled = append(handled, err)
			hmu.Unlock()
		}
	}
	opts := []fun.OptionProvider[*fun.WorkerGroupConf]{fun.WorkerGroupConfNumWorkers(w), fun.WorkerGroupConfContinueOnError(), fun.WorkerGroupConfContinueOnPanic()}
	var pool *srv.Service
	if handlerPool {
		pool = srv.HandlerWorkerPool(queue, handler, opts...)
	} else {
		pool = srv.WorkerPool(queue, opts...)
	}
	desc := func() map[string]any {
		return map[string]any{"mode": map[bool]string{true: "HandlerWorkerPool", false: "WorkerPool"}[handlerPool], "jobs": unitsDesc(units), "workers": w, "queue_limited": limited, "adders": adders, "gomaxprocs": procs}
	}
	r.Eval()
	r.Current(idx, fmt.Sprintf("C11 pool n=%d", n))
	problem, kind, inconclusive := "", "", ""
	var waitErr error
	parent, cancelParent := context.WithCancel(context.Background())
	defer cancelParent()
	kit.WithProcs(procs, func() {
		add := func(when string) {
			var wg sync.WaitGroup
			for a := 0; a < adders; a++ {
				wg.Add(1)
				go func(a int) {
					defer wg.Done()
					for k, u := range units {
						if u.When == when && k%adders == a {
							uu := u
							if err := queue.Add(func(ctx context.Context) error { return uu.body(ctx, nil) }); err == nil {
								u.accepted.Store(true)
							}
							u.addRet.Store(kit.Stamp())
						}
					}
				}(a)
			}
			wg.Wait()
		}
		add("before")
		if err := pool.Start(parent); err != nil {
			kind, problem = "start", err.Error()
			return
		}
		add("after")
		allRan := func() bool {
			for _, u := range units {
				if u.accepted.Load() && u.ended.Load() == 0 {
					return false
				}
			}
			return true
		}
		if !kit.WaitUntil(c11Watchdog/4, allRan) {
			if cs, q := kit.Quiesce(c11Watchdog); q && !allRan() {
				var missing []int
				for _, u := range units {
					if u.accepted.Load() && u.ended.Load() == 0 {
						missing = append(missing, u.ID)
					}
				}
				kind, problem = "accepted-job-never-ran", fmt.Sprintf("jobs %v were accepted while the pool keeps running and have not run at quiescence: %v", missing, cs.Describe())
			} else if !q {
				inconclusive = "jobs not all run, not quiescent"
			}
		}
		kit.Quiesce(c11Watchdog)
		pool.Close()
		wd := make(chan struct{})
		go func() { waitErr = pool.Wait(); close(wd) }()
		if !kit.WaitUntil(c11Watchdog/2, func() bool { return isClosed(wd) }) {
			if cs, q := kit.Quiesce(c11Watchdog); isClosed(wd) {
				// returned late (slow machine): not a verdict
			} else if q {
				if problem == "" {
					kind, problem = "wait-never-returns", fmt.Sprintf("pool Wait does not return after Close; %v", cs.Describe())
				}
			} else {
				inconclusive = "pool Wait not returned, not quiescent"
			}
			cancelParent()
			<-wd
		}
	})
	if inconclusive != "" {
		r.Inconclusive("C11 pool: " + inconclusive)
		return
	}
	name := map[bool]string{true: "HandlerWorkerPool", false: "WorkerPool"}[handlerPool]
	viol := func(k, d string) { r.Violation("C11/"+name+"/"+k, idx, desc(), d, nil) }
	if problem != "" {
		viol(kind, problem)
		return
	}
	hmu.Lock()
	defer hmu.Unlock()
	acc := 0
	for _, u := range units {
		if u.runs.Load() > 1 {
			viol("job-ran-twice", fmt.Sprintf("job %d ran %d times", u.ID, u.runs.Load()))
			return
		}
		if !u.accepted.Load() {
			if u.runs.Load() != 0 {
				viol("rejected-job-ran", fmt.Sprintf("job %d was refused by the queue but ran", u.ID))
				return
			}
			continue
		}
		acc++
		if u.runs.Load() != 1 {
			viol("accepted-job-never-ran", fmt.Sprintf("job %d was accepted while the pool keeps running and ran %d times", u.ID, u.runs.Load()))
			return
		}
		if u.fails() {
			found := errors.Is(waitErr, u.err)
			for _, h := range handled {
				if errors.Is(h, u.err) {
					found = true
				}
			}
			if !found {
				viol("job-error-lost", fmt.Sprintf("job %d failed with %v; Wait returned %v, the handler saw %d errors without it", u.ID, u.err, waitErr, len(handled)))
				return
			}
		}
	}
	if acc >= 2 {
		r.Distinct(fmt.Sprintf("%s|n=%s|w=%d|lim=%v|adders=%d|p=%d", name, lenClass(acc), w, limited, adders, procs))
	}
	r.Count("pool_jobs_accepted", int64(acc))
}

// ---- Cleanup service ----------------------------------------------------------------

func c11Cleanup(r *kit.Run, idx int64, rng *rand.Rand) {
	n := rng.IntN(41)
	procs := kit.ProcsFor(idx / 4)
	adders := 1 + rng.IntN(4)
	immediate := rng.IntN(2) == 0 // shutdown immediately after the last Add
	// racing: the service is ended while the adders are still adding. A
	// function whose Add returned nil was accepted before the shutdown
	// closed the queue and has to run; one that was refused does not.
	racing := rng.IntN(2) == 0
	cut := 0
	if racing {
		n = 100 + rng.IntN(300)
		cut = rng.IntN(n)
	}
	endMode := []string{"close", "parent-cancel"}[rng.IntN(2)]
	pipe := pubsub.NewUnlimitedQueue[fun.Worker]()
	var units []*c11Unit
	for i := 0; i < n; i++ {
		u := &c11Unit{ID: i, Outcome: []string{"ok", "ok", "error", "panic", "error", "error"}[rng.IntN(6)], When: "-", State: "cleanup-fn"}
		u.err = fmt.Errorf("cleanup %d failed", i)
		switch rng.IntN(5) {
		case 0:
			u.err = fmt.Errorf("cleanup %d: flush: %w", i, io.EOF)
		case 1:
			u.err = fmt.Errorf("cleanup %d: flush: %w", i, context.DeadlineExceeded)
		}
		units = append(units, u)
	}
	desc := func() map[string]any {
		return map[string]any{"mode": "Cleanup", "functions": unitsDesc(units), "adders": adders, "shutdown_immediately_after_last_add": immediate, "end_while_adding": racing, "end": endMode, "gomaxprocs": procs}
	}
	r.Eval()
	r.Current(idx, fmt.Sprintf("C11 cleanup n=%d", n))
	problem, kind, inconclusive := "", "", ""
	var waitErr error
	var endStamp int64
	var lateProblem atomic.Value
	lateYields := []int{rng.IntN(50), rng.IntN(400), rng.IntN(3000)}
	slowJobs := rng.IntN(2) == 0 && !racing
	for _, u := range units {
		u.slow = slowJobs
	}
	parent, cancelParent := context.WithCancel(context.Background())
	defer cancelParent()
	kit.WithProcs(procs, func() {
		c := srv.Cleanup(pipe, 0)
		if err := c.Start(parent); err != nil {
			kind, problem = "start", err.Error()
			return
		}
		var wg sync.WaitGroup
		var addsDone atomic.Int64
		end := func() {
			endStamp = kit.Stamp()
			if endMode == "close" {
				c.Close()
			} else {
				cancelParent()
			}
		}
		ended := make(chan struct{})
		if racing {
			go func() {
				defer close(ended)
				for addsDone.Load() < int64(cut) {
					runtime.Gosched()
				}
				end()
			}()
		}
		for a := 0; a < adders; a++ {
			wg.Add(1)
			go func(a int) {
				defer wg.Done()
				for k, u := range units {
					if k%adders == a {
						uu := u
						if err := pipe.Add(func(ctx context.Context) error { return uu.body(ctx, nil) }); err == nil {
							u.accepted.Store(true)
						}
						u.addRet.Store(kit.Stamp())
						addsDone.Add(1)
					}
				}
			}(a)
		}
		wg.Wait()
		if racing {
			<-ended
		} else {
			if !immediate {
				kit.Quiesce(c11Watchdog)
			}
			end()
		}
		wd := make(chan struct{})
		go func() { waitErr = c.Wait(); close(wd) }()
		// late waiters: a Wait that is issued while the shutdown is under way
		// must not return before every accepted function has run
		var lw sync.WaitGroup
		for k := 0; k < 3; k++ {
			lw.Add(1)
			go func(k int) {
				defer lw.Done()
				kit.Yields(lateYields[k])
				_ = c.Wait()
				t := kit.Stamp()
				for _, u := range units {
					if u.accepted.Load() && (u.ended.Load() == 0 || u.ended.Load() > t) {
						lateProblem.Store(fmt.Sprintf("a Wait issued during the shutdown returned (stamp %d) before cleanup function %d had run (ended %d)", t, u.ID, u.ended.Load()))
						return
					}
				}
			}(k)
		}
		defer lw.Wait()
		if !kit.WaitUntil(c11Watchdog/2, func() bool { return isClosed(wd) }) {
			if cs, q := kit.Quiesce(c11Watchdog); isClosed(wd) {
				// returned late (slow machine): not a verdict
			} else if q {
				kind, problem = "wait-never-returns", fmt.Sprintf("Cleanup service Wait does not return after %s; %v", endMode, cs.Describe())
			} else {
				inconclusive = "cleanup Wait not returned, not quiescent"
			}
			cancelParent()
			c.Close()
			<-wd
		}
	})
	if inconclusive != "" {
		r.Inconclusive("C11 cleanup: " + inconclusive)
		return
	}
	viol := func(k, d string) { r.Violation("C11/Cleanup/"+k, idx, desc(), d, nil) }
	if problem != "" {
		viol(kind, problem)
		return
	}
	if lp := lateProblem.Load(); lp != nil {
		viol("wait-returned-during-cleanup", lp.(string))
		return
	}
	for _, u := range units {
		if !u.accepted.Load() {
			if racing {
				if u.runs.Load() != 0 {
					viol("cleanup-run-count", fmt.Sprintf("cleanup function %d was refused and ran %d times", u.ID, u.runs.Load()))
					return
				}
				continue
			}
			viol("add-rejected", fmt.Sprintf("cleanup function %d was refused by an open queue", u.ID))
			return
		}
		if u.runs.Load() != 1 {
			viol("cleanup-run-count", fmt.Sprintf("cleanup function %d was accepted before the shutdown and ran %d times", u.ID, u.runs.Load()))
			return
		}
		if u.started.Load() < endStamp {
			viol("cleanup-ran-before-shutdown", fmt.Sprintf("cleanup function %d started at stamp %d, the service was ended at %d", u.ID, u.started.Load(), endStamp))
			return
		}
		if u.fails() && !errors.Is(waitErr, u.err) {
			viol("cleanup-error-lost", fmt.Sprintf("cleanup function %d failed with %v, Wait returned %v", u.ID, u.err, waitErr))
			return
		}
	}
	if n >= 2 {
		r.Distinct(fmt.Sprintf("cleanup|n=%s|adders=%d|imm=%v|race=%v|%s|p=%d", lenClass(n), adders, immediate, racing, endMode, procs))
	}
	r.Count("cleanup_functions", int64(n))
}
