package mon

import (
	"context"
	"errors"
	"fmt"
	"io"
	"math/rand/v2"
	"sort"
	"sync"
	"sync/atomic"

	"github.com/tychoish/fun"
	"github.com/tychoish/fun/itertool"

	"verif/kit"
)

// C01 — parallel iterator stages deliver every item exactly once.
// Every item carries a unique id; the monitor records each invocation
// of the user function and each value read from the output(s) and
// compares multisets (exact sequences for Buffer and single workers).

func init() { register("C01", runC01) }

var c01Constructs = []string{"Split", "ProcessParallel", "ParallelForEach", "itertool.Worker", "Map", "ParallelBuffer", "Buffer",
	"MergeIterators", "GenerateParallel", "ConcurrentReadOne", "WorkerPool", "OperationPool", "Map(ParallelBuffer(Split1))", "ProcessParallel(Buffer(Merge))", "itertool.Process", "FirstAdvance", "FirstAdvance", "FirstAdvance"}

var c01Workers = []int{1, 2, 3, 4, 8, 16, 33}

func c01N(rng *rand.Rand, w int) int {
	switch rng.IntN(11) {
	case 0:
		return 0
	case 1:
		return 1
	case 2:
		return 2
	case 3:
		return 3
	case 4:
		return max(0, w-1)
	case 5:
		return w
	case 6:
		return w + 1
	case 7:
		return 2*w + 1
	case 8:
		return 2*w + 2
	}
	return rng.IntN(301)
}

// source builds an input iterator over ids 1..n with a speed profile.
func c01Source(n int, sp kit.Speed, seed uint64) *fun.Iterator[int] {
	if sp == kit.Fast {
		xs := make([]int, n)
		for i := range xs {
			xs[i] = i + 1
		}
		return fun.SliceIterator(xs)
	}
	i := 0
	var mu sync.Mutex
	return fun.Generator(func(context.Context) (int, error) {
		mu.Lock()
		defer mu.Unlock()
		if i >= n {
			return 0, io.EOF
		}
		sp.Pace(i, n, seed+uint64(i)*31)
		i++
		return i, nil
	})
}

type c01Obs struct {
	mu       sync.Mutex
	invoked  []int // ids passed to the user function
	out      []int // ids read from the output
	perG     map[int]int
	resErr   error
	closeErr error
}

func (o *c01Obs) inv(id int) {
	o.mu.Lock()
	o.invoked = append(o.invoked, id)
	o.mu.Unlock()
}
func (o *c01Obs) got(ids ...int) {
	o.mu.Lock()
	o.out = append(o.out, ids...)
	o.mu.Unlock()
}

// drainNext consumes an iterator with the documented Next / Value loop
// (one consumer per iterator object).
func drainNext(ctx context.Context, it *fun.Iterator[int], sp kit.Speed, seed uint64, n int) []int {
	var out []int
	for k := 0; it.Next(ctx); k++ {
		if sp != kit.Fast {
			kit.Yields(int(seed+uint64(k)) % 2)
		}
		out = append(out, it.Value())
		sp.Pace(k, n, seed+uint64(k))
	}
	return out
}

func drain(ctx context.Context, it *fun.Iterator[int], sp kit.Speed, seed uint64, n int) []int {
	var out []int
	for k := 0; ; k++ {
		v, err := it.ReadOne(ctx)
		if err != nil {
			return out
		}
		out = append(out, v)
		sp.Pace(k, n, seed+uint64(k))
	}
}

func runC01(r *kit.Run) {
	n := int64(r.Scale(9000, 900000))
	if r.Build != "plain" {
		n /= 10
	}
	for i := int64(0); i < n && !r.Stopped(); i++ {
		if !r.Mine(i) {
			continue
		}
		c01Case(r, i, r.Rng("pipe", i))
	}
}

var errC01Rejected = errors.New("item rejected")

func c01Case(r *kit.Run, idx int64, rng *rand.Rand) {
	construct := c01Constructs[int(idx)%len(c01Constructs)]
	w := c01Workers[rng.IntN(len(c01Workers))]
	n := c01N(rng, w)
	srcSp, wrkSp, conSp := kit.RandSpeed(rng), kit.RandSpeed(rng), kit.RandSpeed(rng)
	if rng.IntN(3) == 0 {
		srcSp, wrkSp, conSp = kit.Fast, kit.Fast, kit.Fast
	}
	seed := rng.Uint64()
	procs := kit.ProcsFor(idx / int64(len(c01Constructs)))
	// how the worker count reaches the configuration: the dedicated option or
	// a whole WorkerGroupConf; a count below one means one worker
	wcfg, wvia := w, "WorkerGroupConfNumWorkers"
	if seed%9 == 0 {
		wcfg, w = []int{0, -1, -6}[seed/9%3], 1
	}
	wopt := fun.WorkerGroupConfNumWorkers(wcfg)
	if seed%2 == 0 {
		wvia = "WorkerGroupConfSet"
		wopt = fun.WorkerGroupConfSet(&fun.WorkerGroupConf{NumWorkers: wcfg})
	}
	desc := map[string]any{"construct": construct, "n": n, "workers": w, "configured_workers": wcfg, "configured_through": wvia, "source": srcSp.String(), "worker": wrkSp.String(), "consumer": conSp.String(), "gomaxprocs": procs}
	obs := &c01Obs{}
	ctx, cancel := context.WithCancel(context.Background())
	defer cancel()
	r.Eval()
	r.Current(idx, fmt.Sprint(desc))

	wantInvoked, wantOut := false, false // which observations apply
	ordered := false                     // exact order required
	expect := make([]int, n)
	for i := range expect {
		expect[i] = i + 1
	}
	var nvk atomic.Int64
	proc := fun.Processor[int](func(_ context.Context, id int) error {
		k := int(nvk.Add(1))
		wrkSp.Pace(k, n, seed+uint64(id))
		obs.inv(id)
		return nil
	})
	body := func() {
		switch construct {
		case "Split":
			wantOut = true
			ordered = w == 1
			splits := c01Source(n, srcSp, seed).Split(w)
			var wg sync.WaitGroup
			useNext := seed%2 == 0 // each output driven by its own Next/Value loop, as documented
			for _, s := range splits {
				wg.Add(1)
				go func(s *fun.Iterator[int]) {
					defer wg.Done()
					if useNext {
						obs.got(drainNext(ctx, s, conSp, seed, n)...)
					} else {
						obs.got(drain(ctx, s, conSp, seed, n)...)
					}
				}(s)
			}
			wg.Wait()
		case "ProcessParallel":
			wantInvoked = true
			ordered = w == 1
			obs.resErr = c01Source(n, srcSp, seed).ProcessParallel(proc, wopt).Run(ctx)
		case "ParallelForEach":
			wantInvoked = true
			ordered = w == 1
			obs.resErr = itertool.ParallelForEach(ctx, c01Source(n, srcSp, seed), proc, wopt)
		case "itertool.Process":
			wantInvoked = true
			ordered = w == 1
			obs.resErr = itertool.Process(ctx, c01Source(n, srcSp, seed), proc, wopt, fun.WorkerGroupConfContinueOnError())
		case "itertool.Worker":
			wantInvoked = true
			ordered = w == 1
			ws := make([]fun.Worker, n)
			for i := range ws {
				id := i + 1
				ws[i] = func(ctx context.Context) error { return proc(ctx, id) }
			}
			obs.resErr = itertool.Worker(ctx, fun.SliceIterator(ws), wopt)
		case "Map":
			wantInvoked, wantOut = true, true
			ordered = w == 1
			mapFn := func(ctx context.Context, id int) (int, error) { _ = proc(ctx, id); return id, nil }
			var out *fun.Iterator[int]
			if seed%4 == 1 {
				out = itertool.Map(c01Source(n, srcSp, seed), mapFn, wopt)
				desc["through"] = "itertool.Map"
			} else {
				out = fun.Map(c01Source(n, srcSp, seed), mapFn, wopt)
			}
			obs.got(drain(ctx, out, conSp, seed, n)...)
			obs.closeErr = out.Close()
		case "ParallelBuffer":
			wantOut = true
			ordered = w == 1
			out := c01Source(n, srcSp, seed).ParallelBuffer(w)
			obs.got(drain(ctx, out, conSp, seed, n)...)
			obs.closeErr = out.Close()
		case "Buffer":
			wantOut, ordered = true, true
			out := c01Source(n, srcSp, seed).Buffer(w - 1)
			obs.got(drain(ctx, out, conSp, seed, n)...)
			obs.closeErr = out.Close()
		case "MergeIterators":
			wantOut = true
			// k sources of unequal length, some empty
			k := w
			if k > 8 {
				k = 8
			}
			var its []*fun.Iterator[int]
			next := 1
			rest := n
			for s := 0; s < k; s++ {
				cnt := 0
				if s == k-1 {
					cnt = rest
				} else if rest > 0 && rng.IntN(4) != 0 {
					cnt = rng.IntN(rest + 1)
				}
				xs := make([]int, cnt)
				for i := range xs {
					xs[i] = next
					next++
				}
				rest -= cnt
				its = append(its, fun.SliceIterator(xs))
			}
			ordered = k == 1
			rejecting := k >= 2 && seed%3 == 0
			if rejecting {
				// one more input that ends at once and whose Close() reports an
				// error although nothing aborted: a continue-on-error Map whose
				// only item is rejected. The other inputs are still consumed.
				its = append(its, fun.Map(fun.SliceIterator([]int{0}), func(context.Context, int) (int, error) { return 0, errC01Rejected },
					fun.WorkerGroupConfNumWorkers(1), fun.WorkerGroupConfContinueOnError()))
				desc["merge_input_with_rejected_item"] = true
			}
			out := fun.MergeIterators(its...)
			obs.got(drain(ctx, out, conSp, seed, n)...)
			obs.closeErr = out.Close()
			if rejecting && errors.Is(obs.closeErr, errC01Rejected) {
				obs.closeErr = nil // the rejected item's error is the only one expected
			}
		case "GenerateParallel":
			wantOut = true
			var ctr atomic.Int64
			gen := fun.Producer[int](func(context.Context) (int, error) {
				id := int(ctr.Add(1))
				if id > n {
					return 0, io.EOF
				}
				srcSp.Pace(id, n, seed+uint64(id))
				return id, nil
			})
			out := gen.GenerateParallel(wopt)
			if seed%4 == 1 {
				out = itertool.Generate(gen, wopt)
				desc["through"] = "itertool.Generate"
			}
			obs.got(drain(ctx, out, conSp, seed, n)...)
			obs.closeErr = out.Close()
			ordered = false
		case "FirstAdvance":
			// many small fresh pipelines; the first advance of each comes from
			// several goroutines released together (the lazily started stage
			// must still be started once, and nothing may be lost)
			wantOut = true
			stage := []string{"Map", "Split", "ParallelBuffer", "Buffer", "GenerateParallel", "MergeIterators"}[seed/3%6]
			readers := 2 + int(seed/5%7)
			rounds, m := 40, 1+int(seed/11%12)
			n = rounds * m
			expect = make([]int, n)
			for i := range expect {
				expect[i] = i + 1
			}
			w2 := 2 + int(seed/13%3)
			wantInvoked = stage == "Map"
			slowLast := seed%3 != 0 // the last item of every pipeline takes a moment to produce / transform
			desc["stage"], desc["readers"], desc["fresh_pipelines"], desc["n"], desc["workers"], desc["slow_last_item"] = stage, readers, rounds, n, w2, slowLast
			linger := func(last bool) {
				if last && slowLast {
					kit.Yields(20 + int(seed%40))
				}
			}
			mk := func(ids []int) *fun.Iterator[int] {
				var i atomic.Int64
				return fun.Generator(func(context.Context) (int, error) {
					k := int(i.Add(1))
					if k > len(ids) {
						return 0, io.EOF
					}
					linger(k == len(ids) && stage != "Map")
					return ids[k-1], nil
				})
			}
			for rd := 0; rd < rounds; rd++ {
				ids := expect[rd*m : (rd+1)*m]
				var outs []*fun.Iterator[int]
				switch stage {
				case "Map":
					outs = append(outs, fun.Map(mk(ids), func(_ context.Context, id int) (int, error) {
						obs.inv(id)
						linger(id == ids[len(ids)-1])
						return id, nil
					}, fun.WorkerGroupConfNumWorkers(w2)))
				case "Split":
					outs = mk(ids).Split(readers)
				case "ParallelBuffer":
					outs = append(outs, mk(ids).ParallelBuffer(w2))
				case "Buffer":
					outs = append(outs, mk(ids).Buffer(w2))
				case "GenerateParallel":
					var i atomic.Int64
					outs = append(outs, fun.Producer[int](func(context.Context) (int, error) {
						k := int(i.Add(1))
						if k > len(ids) {
							return 0, io.EOF
						}
						linger(k == len(ids))
						return ids[k-1], nil
					}).GenerateParallel(fun.WorkerGroupConfNumWorkers(w2)))
				default:
					outs = append(outs, fun.MergeIterators(mk(ids[:len(ids)/2]), mk(ids[len(ids)/2:]), mk(nil)))
				}
				bar := kit.NewSpinBarrier(readers)
				var wg sync.WaitGroup
				for c := 0; c < readers; c++ {
					wg.Add(1)
					go func(c int) {
						defer wg.Done()
						it := outs[c%len(outs)]
						bar.Wait()
						obs.got(drain(ctx, it, kit.Fast, seed, n)...)
					}(c)
				}
				wg.Wait()
				for _, it := range outs {
					if err := it.Close(); err != nil {
						obs.closeErr = err
					}
				}
			}
		case "ConcurrentReadOne":
			wantOut = true
			// the interesting moment is the end of the stream (one reader
			// closes the iterator while another has just received a value):
			// the input is cut into several short streams, each read to its
			// end by w concurrent readers of one iterator
			streams := 1
			sp := conSp
			if n >= 8 {
				streams = 1 + int(seed%6)
			}
			if w >= 2 && seed%3 == 0 {
				// tail race: streams about as long as there are readers, all
				// readers released together and reading without pauses
				streams = (n + w - 1) / w
				sp = kit.Fast
			}
			for s := 0; s < streams; s++ {
				lo, hi := s*n/streams, (s+1)*n/streams
				readers := w
				var ch chan int
				if sp == kit.Fast && w >= 2 && seed%3 == 0 {
					// readers park in the receive; the last send and the close
					// wake them together
					readers = 4 * w
					ch = make(chan int)
					go func() {
						for _, id := range expect[lo:hi] {
							ch <- id
						}
						close(ch)
					}()
				} else {
					ch = make(chan int, hi-lo)
					for _, id := range expect[lo:hi] {
						ch <- id
					}
					close(ch)
				}
				it := fun.ChannelIterator(ch)
				var wg sync.WaitGroup
				start := make(chan struct{})
				for c := 0; c < readers; c++ {
					wg.Add(1)
					go func(c int) {
						defer wg.Done()
						<-start
						obs.got(drain(ctx, it, sp, seed+uint64(c), n)...)
					}(c)
				}
				close(start)
				wg.Wait()
			}
			ordered = w == 1 && streams == 1
		case "WorkerPool":
			wantInvoked = true
			ws := make([]fun.Worker, n)
			for i := range ws {
				id := i + 1
				ws[i] = func(ctx context.Context) error { return proc(ctx, id) }
			}
			obs.resErr = fun.HF.WorkerPool(fun.SliceIterator(ws)).Run(ctx)
		case "OperationPool":
			wantInvoked = true
			ops := make([]fun.Operation, n)
			for i := range ops {
				id := i + 1
				ops[i] = func(ctx context.Context) { _ = proc(ctx, id) }
			}
			fun.HF.OperationPool(fun.SliceIterator(ops)).Run(ctx)
		case "Map(ParallelBuffer(Split1))":
			wantInvoked, wantOut = true, true
			in := c01Source(n, srcSp, seed).Split(1)[0].ParallelBuffer(w)
			out := fun.Map(in, func(ctx context.Context, id int) (int, error) { _ = proc(ctx, id); return id, nil }, fun.WorkerGroupConfNumWorkers(1+w/2))
			obs.got(drain(ctx, out, conSp, seed, n)...)
			obs.closeErr = out.Close()
		case "ProcessParallel(Buffer(Merge))":
			wantInvoked = true
			half := n / 2
			a, b := make([]int, half), make([]int, n-half)
			for i := range a {
				a[i] = i + 1
			}
			for i := range b {
				b[i] = half + i + 1
			}
			in := fun.MergeIterators(fun.SliceIterator(a), fun.SliceIterator(b)).Buffer(w)
			obs.resErr = in.ProcessParallel(proc, wopt).Run(ctx)
		}
	}
	done := make(chan struct{})
	var panicMsg atomic.Value
	stuck := false
	kit.WithProcs(procs, func() {
		go func() {
			defer close(done)
			defer func() {
				if p := recover(); p != nil {
					panicMsg.Store(fmt.Sprint(p))
				}
			}()
			body()
		}()
		if !kit.WaitUntil(c14Watchdog/2, func() bool {
			select {
			case <-done:
				return true
			default:
				return false
			}
		}) {
			c, q := kit.Quiesce(c14Watchdog)
			if isClosed(done) {
				// finished late (slow machine): not a verdict
			} else {
				stuck = true
				if q {
					r.Violation("C01/"+construct+"/no-termination", idx, desc, fmt.Sprintf("the pipeline over a finite input never finished; at quiescence: %v", c.Describe()), nil)
				} else {
					r.Inconclusive("C01 pipeline did not finish and the process is not quiescent: " + construct)
				}
				cancel()
				<-done
			}
		}
	})
	if stuck {
		return
	}
	viol := func(kind, detail string) { r.Violation("C01/"+construct+"/"+kind, idx, desc, detail, nil) }
	if p := panicMsg.Load(); p != nil {
		viol("panic", p.(string))
		return
	}
	if obs.resErr != nil || obs.closeErr != nil {
		viol("spurious-error", fmt.Sprintf("result error %v, Close() error %v in a run where nothing fails", obs.resErr, obs.closeErr))
		return
	}
	check := func(what string, got []int) bool {
		if ordered {
			if !eqInts(got, expect) {
				g := got
				if len(g) > 30 {
					g = g[:30]
				}
				viol(what+"-sequence", fmt.Sprintf("%s sequence differs from the input order 1..%d: %s; first items %v", what, n, diffMultiset(got, expect), g))
				return false
			}
			return true
		}
		if d := diffMultiset(got, expect); d != "" {
			viol(what+"-multiset", fmt.Sprintf("%s: %s (n=%d)", what, d, n))
			return false
		}
		return true
	}
	if wantInvoked && !check("invocations", obs.invoked) {
		return
	}
	if wantOut && !check("output", obs.out) {
		return
	}
	if n >= 2 && w >= 2 {
		r.Distinct(fmt.Sprintf("%s|n=%s|w=%d|%s/%s/%s", construct, nClass(n, w), w, srcSp, wrkSp, conSp))
	}
	r.Count("items", int64(n))
	if r.WantSample() && n > 3 && w > 1 {
		r.Sample(desc)
	}
}

func nClass(n, w int) string {
	switch {
	case n < w:
		return "<w"
	case n == w:
		return "=w"
	case n <= 2*w+2:
		return "<=2w+2"
	}
	return ">2w+2"
}

// diffMultiset describes lost / duplicated / invented ids ("" if equal).
func diffMultiset(got, want []int) string {
	cnt := map[int]int{}
	for _, v := range want {
		cnt[v]++
	}
	var lost, dup, invented []int
	seen := map[int]int{}
	for _, v := range got {
		seen[v]++
	}
	for v, c := range cnt {
		if seen[v] < c {
			lost = append(lost, v)
		}
	}
	for v, c := range seen {
		if cnt[v] == 0 {
			invented = append(invented, v)
		} else if c > cnt[v] {
			dup = append(dup, v)
		}
	}
	if len(lost)+len(dup)+len(invented) == 0 {
		if len(got) == len(want) {
			// same multiset; an order difference is reported by the caller
			same := true
			for i := range got {
				if got[i] != want[i] {
					same = false
				}
			}
			if same {
				return ""
			}
			return ""
		}
		return ""
	}
	sort.Ints(lost)
	sort.Ints(dup)
	sort.Ints(invented)
	clip := func(x []int) []int {
		if len(x) > 12 {
			return x[:12]
		}
		return x
	}
	return fmt.Sprintf("lost %d %v, duplicated %d %v, invented %d %v", len(lost), clip(lost), len(dup), clip(dup), len(invented), clip(invented))
}
