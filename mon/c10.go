package mon

import (
	"context"
	"errors"
	"fmt"
	"math/rand/v2"
	"strings"
	"sync"
	"sync/atomic"
	"time"

	"github.com/tychoish/fun"
	"github.com/tychoish/fun/ers"
	"github.com/tychoish/fun/srv"

	"verif/kit"
)

// C10 — srv.Service lifecycle: each phase once, in order, errors
// complete. Fault enumeration over {absent, ok, error, panic}^4 for
// Run/Shutdown/Cleanup/ErrorHandler x end mode x timing x callers, with
// a stamped call log as the oracle's input.

func init() { register("C10", runC10) }

const c10Watchdog = 20 * time.Second

const (
	phAbsent = iota
	phOK
	phError
	phPanic
)

var phNames = []string{"absent", "ok", "error", "panic"}

type c10Case struct {
	Run      int    `json:"-"`
	Shutdown int    `json:"-"`
	Cleanup  int    `json:"-"`
	EH       int    `json:"-"`
	Phases   string `json:"run/shutdown/cleanup/errorhandler"`
	End      string `json:"end_mode"` // run-returns | close | parent-cancel
	When     string `json:"end_relative_to_start"`
	Callers  int    `json:"concurrent_callers"`
	Procs    int    `json:"gomaxprocs"`
	Hook     string `json:"hook,omitempty"`
	Shape    int    `json:"error_value_shape,omitempty"` // see c10Shape
	Observer bool   `json:"cancelled_worker_observer,omitempty"`
}

type c10Log struct {
	mu                        sync.Mutex
	runStart, runEnd          []int64
	shutStart, shutEnd        []int64
	cleanStart, cleanEnd      []int64
	ehStart                   []int64
	ehArgNil                  bool
	ehArg                     error
	closeCall, parentCancel   atomic.Int64
	errRun, errShut, errClean error
}

func (l *c10Log) add(dst *[]int64) { l.mu.Lock(); *dst = append(*dst, kit.Stamp()); l.mu.Unlock() }

// c10Shape: the value a failing phase hands back. 0: the error itself; 1: it
// wrapped by fmt.Errorf(%w); 2: the cause taken out of an annotated error
// with errors.Unwrap (an interior node of the library's own aggregate); 3: a
// Join of it with another error. errors.Is finds e in all of them.
func c10Shape(shape int, e error) error {
	switch shape {
	case 1:
		return fmt.Errorf("phase: %w", e)
	case 2:
		return errors.Unwrap(ers.Wrap(e, "annotated"))
	case 3:
		return ers.Join(e, errors.New("and another"))
	}
	return e
}

func c10Outcome(kind int, e error) error {
	switch kind {
	case phError:
		return e
	case phPanic:
		panic(e)
	}
	return nil
}

func runC10(r *kit.Run) {
	// the fault table: 4^4 phase combinations x 3 end modes x 2 timings x 3 caller counts = 4608 cells
	ends := []string{"run-returns", "close", "parent-cancel"}
	whens := []string{"after-start-returned", "before-start-returned"}
	callers := []int{1, 4, 16}
	reps := int64(r.Scale(1, 180))
	stride := int64(r.Scale(7, 1)) // quick: every 7th cell (offset by seed) ~ 660 cells
	offset := int64(r.Seed % uint64(stride))
	cell := int64(0)
	for rep := int64(0); rep < reps; rep++ {
		for ph := 0; ph < 256; ph++ {
			for _, end := range ends {
				for _, when := range whens {
					for _, nc := range callers {
						cell++
						if (cell+offset)%stride != 0 || !r.Mine(cell) || r.Stopped() {
							continue
						}
						c := c10Case{Run: ph & 3, Shutdown: ph >> 2 & 3, Cleanup: ph >> 4 & 3, EH: ph >> 6 & 3, End: end, When: when, Callers: nc, Procs: kit.ProcsFor(cell)}
						c10Run(r, cell, c, r.Rng("cell", cell))
					}
				}
			}
		}
	}
	nh := int64(r.Scale(120, 12000))
	for i := int64(0); i < nh && !r.Stopped(); i++ {
		if !r.Mine(1_000_000 + i) {
			continue
		}
		rng := r.Rng("hook", i)
		ph := rng.IntN(256)
		c := c10Case{Run: 1 + ph&1, Shutdown: ph >> 2 & 3, Cleanup: ph >> 4 & 3, EH: ph >> 6 & 3, End: "run-returns", When: "after-start-returned", Callers: 2 + rng.IntN(6), Procs: kit.ProcsFor(i)}
		c.Hook = []string{"launched: service finishes before Start's deferred stores", "checked: service finishes between a late Start's finished-check and its latch"}[i%2]
		c10Run(r, 1_000_000+i, c, rng)
	}
	nr := int64(r.Scale(72, 1200))
	for i := int64(0); i < nr && !r.Stopped(); i++ {
		if !r.Mine(1_500_000 + i) {
			continue
		}
		c10StartRace(r, i, r.Rng("startrace", i))
	}
}

// c10StartRace: many fresh services; observers keep calling Wait from
// before Start is invoked until Wait stops answering "not started". Run
// blocks until its context ends and nobody ends it before the stamp taken
// just before Close: an observer whose Wait returned something else than
// ErrServiceNotStarted before that stamp returned while Run was still
// running.
func c10StartRace(r *kit.Run, idx int64, rng *rand.Rand) {
	observers := 2 + rng.IntN(5)
	procs := []int{4, 8, 16, 16}[rng.IntN(4)]
	trials := 400
	withShutdown := rng.IntN(2) == 0
	desc := map[string]any{"mode": "start-race", "observers_calling_Wait_from_before_Start": observers, "fresh_services": trials, "shutdown_configured": withShutdown, "gomaxprocs": procs}
	r.EvalN(int64(trials))
	r.Current(1_500_000+idx, fmt.Sprintf("%v", desc))
	problem, inconclusive := "", ""
	var early atomic.Int64
	kit.WithProcs(procs, func() {
		for t := 0; t < trials && problem == "" && inconclusive == ""; t++ {
			var runEnd atomic.Int64
			s := &srv.Service{Name: "c10race", Run: func(ctx context.Context) error {
				<-ctx.Done()
				runEnd.Store(kit.Stamp())
				return nil
			}}
			if withShutdown {
				s.Shutdown = func() error { return nil }
			}
			type obs struct {
				res error
				ret int64
			}
			got := make([]obs, observers)
			var wg sync.WaitGroup
			var stop atomic.Bool
			bar := kit.NewSpinBarrier(observers + 1)
			for k := 0; k < observers; k++ {
				wg.Add(1)
				go func(k int) {
					defer wg.Done()
					bar.Wait()
					for {
						res := s.Wait()
						ret := kit.Stamp()
						if errors.Is(res, srv.ErrServiceNotStarted) && !stop.Load() {
							continue
						}
						got[k] = obs{res, ret}
						return
					}
				}(k)
			}
			bar.Wait()
			kit.Yields(rng.IntN(3))
			if err := s.Start(context.Background()); err != nil {
				problem = fmt.Sprintf("trial %d: the only Start call returned %v", t, err)
			}
			kit.Yields(rng.IntN(4))
			closeStamp := kit.Stamp() // the service context is live up to here
			s.Close()
			d := make(chan struct{})
			go func() { wg.Wait(); close(d) }()
			if met, q, cs := kit.Await(c10Watchdog/4, c10Watchdog, func() bool { return isClosed(d) }); !met {
				if q {
					problem = fmt.Sprintf("trial %d: Wait callers are still blocked after Close; at quiescence: %v", t, cs.Describe())
				} else {
					inconclusive = "observers did not return, not quiescent"
				}
				stop.Store(true)
				return
			}
			stop.Store(true)
			for k, o := range got {
				if errors.Is(o.res, srv.ErrServiceNotStarted) {
					continue
				}
				if o.ret < closeStamp && problem == "" {
					problem = fmt.Sprintf("trial %d: observer %d's Wait returned %v at stamp %d while the service was running: Close was called after stamp %d and Run ended at %d", t, k, o.res, o.ret, closeStamp, runEnd.Load())
				}
				if o.ret > closeStamp {
					early.Add(1)
				}
			}
		}
	})
	if inconclusive != "" {
		r.Inconclusive("C10 start race: " + inconclusive)
		return
	}
	if problem != "" {
		sig := "wait-returned-early"
		if strings.Contains(problem, "still blocked") {
			sig = "wait-never-returns"
		} else if strings.Contains(problem, "only Start call") {
			sig = "start-result"
		}
		r.Violation("C10/"+sig, 1_500_000+idx, desc, problem, nil)
		return
	}
	r.Count("start_race_services", int64(trials))
	r.Count("start_race_waits_that_blocked_until_the_end", early.Load())
	r.Distinct(fmt.Sprintf("start-race|o=%d|sd=%v|p=%d", observers, withShutdown, procs))
}

func c10Run(r *kit.Run, idx int64, c c10Case, rng *rand.Rand) {
	c.Phases = fmt.Sprintf("%s/%s/%s/%s", phNames[c.Run], phNames[c.Shutdown], phNames[c.Cleanup], phNames[c.EH])
	r.Eval()
	r.Current(idx, fmt.Sprintf("%+v", c))
	lg := &c10Log{errRun: errors.New("run failed"), errShut: errors.New("shutdown failed"), errClean: errors.New("cleanup failed")}
	errEH := errors.New("error handler failed")
	c.Shape = rng.IntN(6) % 4 // 0 twice as often
	blocks := c.End != "run-returns"
	slowCleanup := []int{0, 0, 20, 200}[rng.IntN(4)]
	s := &srv.Service{Name: "c10"}
	if c.Run != phAbsent {
		s.Run = func(ctx context.Context) error {
			lg.add(&lg.runStart)
			if blocks {
				<-ctx.Done()
			} else {
				kit.Yields(rng.IntN(3))
			}
			lg.add(&lg.runEnd)
			return c10Outcome(c.Run, c10Shape(c.Shape, lg.errRun))
		}
	}
	if c.Shutdown != phAbsent {
		s.Shutdown = func() error {
			lg.add(&lg.shutStart)
			defer lg.add(&lg.shutEnd)
			return c10Outcome(c.Shutdown, c10Shape(c.Shape, lg.errShut))
		}
	}
	if c.Cleanup != phAbsent {
		s.Cleanup = func() error {
			lg.add(&lg.cleanStart)
			defer lg.add(&lg.cleanEnd)
			kit.Yields(slowCleanup) // a late Wait caller may arrive while Cleanup is still running
			return c10Outcome(c.Cleanup, c10Shape(c.Shape, lg.errClean))
		}
	}
	if c.EH != phAbsent {
		s.ErrorHandler.Set(func(err error) {
			lg.mu.Lock()
			lg.ehStart = append(lg.ehStart, kit.Stamp())
			lg.ehArgNil = lg.ehArgNil || err == nil
			lg.ehArg = err
			lg.mu.Unlock()
			_ = c10Outcome(c.EH, errEH)
		})
	}
	parent, cancelParent := context.WithCancel(context.Background())
	defer cancelParent()

	startRes := make([]error, c.Callers)
	waitRes := make([]error, c.Callers)
	waitRet := make([]int64, c.Callers)
	var nilStartReturned atomic.Bool
	var startsReturned atomic.Int64
	var panicMsg atomic.Value
	endStimulus := func() {
		switch c.End {
		case "close":
			lg.closeCall.CompareAndSwap(0, kit.Stamp())
			s.Close()
		case "parent-cancel":
			lg.parentCancel.CompareAndSwap(0, kit.Stamp())
			cancelParent()
		}
	}
	var serviceDone atomic.Bool // set by the monitor once Cleanup (or Run, if absent) has ended
	finished := func() bool {
		lg.mu.Lock()
		defer lg.mu.Unlock()
		runOver := len(lg.runEnd) > 0 || c.Run == phAbsent
		cleanOver := c.Cleanup == phAbsent || len(lg.cleanEnd) > 0
		shutOver := c.Shutdown == phAbsent || len(lg.shutEnd) > 0
		return runOver && cleanOver && shutOver
	}
	hookFired := atomic.Int64{}
	hook := func(p string) {
		switch {
		case c.Hook != "" && c.Hook[0] == 'l' && p == "srv.Service.Start.launched":
			if hookFired.Add(1) == 1 {
				// Run returns at once: let the whole service finish before
				// the starter's deferred state stores run
				kit.WaitUntil(c10Watchdog/4, finished)
				kit.Yields(200)
			}
		case c.Hook != "" && c.Hook[0] == 'c' && p == "srv.Service.Start.checked":
			// every Start passes here; hold the late ones until the
			// service (started by the first) has finished
			if hookFired.Add(1) > 1 {
				kit.WaitUntil(c10Watchdog/4, finished)
				kit.Yields(200)
			}
		}
	}
	inconclusive, problem, kind := "", "", ""
	note := func(k, s string) {
		if problem == "" {
			kind, problem = k, s
		}
	}
	// a second kind of observer: Service.Worker()(ctx) on the running
	// service, whose own context is cancelled while the service keeps
	// running. It returns early (its contract); the Wait callers must not.
	c.Observer = blocks && c.When == "after-start-returned" && c.Run != phAbsent && rng.IntN(3) == 0
	obsDelay, obsAfter := 10+rng.IntN(40), rng.IntN(30)
	body := func() {
		if c.When == "before-start-returned" {
			// the end stimulus races the start
			go func() { kit.Yields(rng.IntN(4)); endStimulus() }()
		}
		var wg sync.WaitGroup
		bar := kit.NewBarrier(c.Callers)
		for k := 0; k < c.Callers; k++ {
			wg.Add(1)
			go func(k int) {
				defer wg.Done()
				defer func() {
					if p := recover(); p != nil {
						panicMsg.Store(fmt.Sprint(p))
					}
				}()
				bar.Wait()
				startRes[k] = s.Start(parent)
				if startRes[k] == nil {
					nilStartReturned.Store(true)
				}
				startsReturned.Add(1)
				if k%3 == 2 {
					lg.closeCall.CompareAndSwap(0, kit.Stamp())
					s.Close() // concurrent Close callers; a no-op unless the service runs
				}
				// Wait is judged when invoked after a nil Start has returned
				for !nilStartReturned.Load() && startsReturned.Load() < int64(c.Callers) {
					kit.Yields(1)
				}
				waitRes[k] = s.Wait()
				waitRet[k] = kit.Stamp()
			}(k)
		}
		// the end stimulus after every Start has returned (repeated for the
		// "before" timing: a Close that raced the start may have been a no-op)
		kit.WaitUntil(c10Watchdog/4, func() bool { return startsReturned.Load() == int64(c.Callers) })
		if c.Observer {
			octx, ocancel := context.WithCancel(context.Background())
			od := make(chan struct{})
			go func() { defer close(od); _ = s.Worker()(octx) }()
			kit.Yields(obsDelay)
			ocancel()
			if met, q, cs := kit.Await(c10Watchdog/4, c10Watchdog, func() bool { return isClosed(od) }); !met && q {
				note("worker-ignores-its-context", fmt.Sprintf("Service.Worker() did not return after its context was cancelled; at quiescence: %v", cs.Describe()))
			}
			kit.Yields(obsAfter)
		}
		endStimulus()
		d := make(chan struct{})
		go func() { wg.Wait(); close(d) }()
		if !kit.WaitUntil(c10Watchdog/2, func() bool {
			select {
			case <-d:
				return true
			default:
				return false
			}
		}) {
			if cs, q := kit.Quiesce(c10Watchdog); isClosed(d) {
				// returned late (slow machine): not a verdict
				serviceDone.Store(true)
				return
			} else if q {
				note("wait-never-returns", fmt.Sprintf("Start/Wait callers are still blocked although the service was ended by %s; at quiescence: %v", c.End, cs.Describe()))
			} else {
				inconclusive = "callers did not return, not quiescent"
			}
			cancelParent()
			s.Close()
			<-d
			return
		}
		serviceDone.Store(true)
	}
	kit.WithProcs(c.Procs, func() {
		if c.Hook != "" {
			kit.WithHook(hook, body)
		} else {
			body()
		}
		if problem != "" || inconclusive != "" {
			return
		}
		runningAfterWait := s.Running()
		if _, q := kit.Quiesce(c10Watchdog); !q {
			inconclusive = "not quiescent after every Wait returned"
			return
		}
		if runningAfterWait || s.Running() {
			note("running-after-wait", fmt.Sprintf("Running() is true after Wait returned (immediately: %v, at quiescence: %v)", runningAfterWait, s.Running()))
		}
	})
	if inconclusive != "" {
		r.Inconclusive("C10: " + inconclusive)
		return
	}
	viol := func(k, d string) { r.Violation("C10/"+k, idx, c, d, nil) }
	if p := panicMsg.Load(); p != nil {
		viol("escaped-panic", p.(string))
		return
	}
	if problem != "" {
		viol(kind, problem)
		return
	}
	lg.mu.Lock()
	defer lg.mu.Unlock()
	// Start results
	nils := 0
	for k, e := range startRes {
		switch {
		case e == nil:
			nils++
		case errors.Is(e, srv.ErrServiceAlreadyStarted), errors.Is(e, srv.ErrServiceReturned):
		default:
			viol("start-result", fmt.Sprintf("Start caller %d returned %v", k, e))
			return
		}
	}
	if nils != 1 {
		viol("start-not-exactly-one-nil", fmt.Sprintf("%d of %d concurrent Start calls returned nil", nils, c.Callers))
		return
	}
	once := func(name string, set bool, starts []int64) bool {
		want := 0
		if set {
			want = 1
		}
		if len(starts) != want {
			viol(name+"-count", fmt.Sprintf("%s ran %d times (configured: %v)", name, len(starts), set))
			return false
		}
		return true
	}
	if len(lg.runStart) > 1 {
		viol("run-count", fmt.Sprintf("Run was invoked %d times", len(lg.runStart)))
		return
	}
	if c.Run != phAbsent && len(lg.runStart) != 1 {
		viol("run-count", "Run was never invoked although a Start returned nil")
		return
	}
	if !once("Shutdown", c.Shutdown != phAbsent, lg.shutStart) || !once("Cleanup", c.Cleanup != phAbsent, lg.cleanStart) {
		return
	}
	if len(lg.ehStart) > 1 {
		viol("errorhandler-count", fmt.Sprintf("the ErrorHandler ran %d times", len(lg.ehStart)))
		return
	}
	var runEnd int64
	if len(lg.runEnd) > 0 {
		runEnd = lg.runEnd[0]
	}
	// Shutdown only after the service context ended
	if len(lg.shutStart) == 1 {
		earliest := int64(0)
		for _, t := range []int64{runEnd, lg.closeCall.Load(), lg.parentCancel.Load()} {
			if t != 0 && (earliest == 0 || t < earliest) {
				earliest = t
			}
		}
		if c.Run != phAbsent && (earliest == 0 || lg.shutStart[0] < earliest) {
			viol("shutdown-before-context-ended", fmt.Sprintf("Shutdown started at stamp %d; Run ended %d, Close called %d, parent cancelled %d", lg.shutStart[0], runEnd, lg.closeCall.Load(), lg.parentCancel.Load()))
			return
		}
	}
	if len(lg.cleanStart) == 1 {
		if runEnd != 0 && lg.cleanStart[0] < runEnd {
			viol("cleanup-before-run-ended", fmt.Sprintf("Cleanup started at %d, Run ended at %d", lg.cleanStart[0], runEnd))
			return
		}
		if len(lg.shutEnd) == 1 && lg.cleanStart[0] < lg.shutEnd[0] {
			viol("cleanup-before-shutdown-ended", fmt.Sprintf("Cleanup started at %d, Shutdown ended at %d", lg.cleanStart[0], lg.shutEnd[0]))
			return
		}
	}
	if len(lg.ehStart) == 1 {
		if len(lg.cleanEnd) == 1 && lg.ehStart[0] < lg.cleanEnd[0] {
			viol("errorhandler-before-cleanup-ended", fmt.Sprintf("the ErrorHandler started at %d, Cleanup ended at %d", lg.ehStart[0], lg.cleanEnd[0]))
			return
		}
		if runEnd != 0 && lg.ehStart[0] < runEnd {
			viol("errorhandler-before-run-ended", "the ErrorHandler ran before Run ended")
			return
		}
		if lg.ehArgNil {
			viol("errorhandler-nil-argument", "the ErrorHandler was called with a nil error")
			return
		}
	}
	// Wait: after all three ended, with the complete aggregate
	var want []error
	anyPanic := c.Run == phAbsent || c.Run == phPanic || c.Shutdown == phPanic || c.Cleanup == phPanic
	if c.Run == phError || c.Run == phPanic {
		want = append(want, lg.errRun)
	}
	if c.Shutdown == phError || c.Shutdown == phPanic {
		want = append(want, lg.errShut)
	}
	if c.Cleanup == phError || c.Cleanup == phPanic {
		want = append(want, lg.errClean)
	}
	for k := range waitRes {
		for name, ends := range map[string][]int64{"Run": lg.runEnd, "Shutdown": lg.shutEnd, "Cleanup": lg.cleanEnd} {
			if len(ends) == 1 && waitRet[k] < ends[0] {
				viol("wait-returned-early", fmt.Sprintf("Wait caller %d returned at stamp %d, %s ended at %d", k, waitRet[k], name, ends[0]))
				return
			}
		}
		if c.Run == phAbsent {
			continue // DESIGN 7(e): only ordering and termination
		}
		for _, e := range want {
			if !errors.Is(waitRes[k], e) {
				viol("wait-loses-error", fmt.Sprintf("Wait caller %d returned %v, which does not contain %v", k, waitRes[k], e))
				return
			}
		}
		ehPanicked := c.EH == phPanic && len(lg.ehStart) == 1
		if anyPanic && !errors.Is(waitRes[k], fun.ErrRecoveredPanic) {
			viol("wait-loses-panic", fmt.Sprintf("a phase panicked, Wait caller %d returned %v without ErrRecoveredPanic", k, waitRes[k]))
			return
		}
		if !anyPanic && !ehPanicked && errors.Is(waitRes[k], fun.ErrRecoveredPanic) {
			viol("wait-invents-panic", fmt.Sprintf("no phase panicked, Wait caller %d returned %v", k, waitRes[k]))
			return
		}
		if len(want) == 0 && !anyPanic && !ehPanicked && waitRes[k] != nil {
			viol("wait-not-nil", fmt.Sprintf("no phase failed, Wait caller %d returned %v", k, waitRes[k]))
			return
		}
	}
	r.Distinct(fmt.Sprintf("%s|%s|%s|c=%d|h=%v", c.Phases, c.End, c.When, c.Callers, c.Hook != ""))
	r.Count("cells", 1)
	if c.Hook != "" && hookFired.Load() > 0 {
		r.Count("hook_cells_with_yield_point_reached", 1)
	}
	if r.WantSample() && c.Callers > 1 {
		r.Sample(c)
	}
}
