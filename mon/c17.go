package mon

import (
	"context"
	"errors"
	"fmt"
	"math/rand/v2"
	"sort"

	"github.com/tychoish/fun"
	"github.com/tychoish/fun/dt"
	"github.com/tychoish/fun/dt/cmp"

	"verif/kit"
)

// C17 — SortMerge / SortQuick / IsSorted / Heap agree with the ordering
// relation. Elements are (key, uid) pairs so that "permutation of the
// previous elements" and stability are decidable; the oracle is an
// independent adjacent-pair scan and a sorted copy.

func init() { register("C17", runC17) }

type kv struct {
	K   int
	UID int
}

// LessThan makes kv a cmp.Orderable for cmp.LessThanCustom.
func (a kv) LessThan(b kv) bool { return a.K < b.K }

type c17cmp struct {
	name   string
	lt     cmp.LessThan[kv]
	strict func(a, b kv) bool // the strict order the comparator stands for
}

func c17comparators() []c17cmp {
	native := func(a, b kv) bool { return a.K < b.K }
	rev := func(a, b kv) bool { return b.K < a.K }
	abs := func(k int) int {
		if k < 0 {
			return -k
		}
		return k
	}
	return []c17cmp{
		{"native", native, native},
		{"strict-reverse", rev, rev},
		{"cmp.Reverse", cmp.Reverse[kv](native), rev}, // >= : not strict, judged by the strict order it stands for
		{"key-projected-abs", cmp.LessThanConverter(func(x kv) int { return abs(x.K) }), func(a, b kv) bool { return abs(a.K) < abs(b.K) }},
		{"custom-method", cmp.LessThanCustom[kv], native},
		{"key-projected-mod3", cmp.LessThanConverter(func(x kv) int { return ((x.K % 3) + 3) % 3 }), func(a, b kv) bool { return ((a.K%3)+3)%3 < ((b.K%3)+3)%3 }},
	}
}

var c17classes = []string{"empty", "single", "dups", "sorted", "reversed", "negzero", "inv-first", "inv-last", "random", "all-equal", "two"}

func c17input(rng *rand.Rand, class string) []int {
	n := 2 + rng.IntN(9)
	if rng.IntN(10) == 0 {
		n = 10 + rng.IntN(40)
	}
	out := make([]int, n)
	switch class {
	case "empty":
		return nil
	case "single":
		return []int{rng.IntN(7) - 3}
	case "two":
		return []int{rng.IntN(5) - 2, rng.IntN(5) - 2}
	case "dups":
		for i := range out {
			out[i] = rng.IntN(3) - 1
		}
	case "sorted":
		v := -rng.IntN(5)
		for i := range out {
			v += rng.IntN(3)
			out[i] = v
		}
	case "reversed":
		v := 5 + rng.IntN(5)
		for i := range out {
			v -= rng.IntN(3)
			out[i] = v
		}
	case "negzero":
		for i := range out {
			out[i] = -rng.IntN(4)
		}
	case "inv-first":
		for i := range out {
			out[i] = i * 2
		}
		out[0], out[1] = out[1], out[0]
	case "inv-last":
		for i := range out {
			out[i] = i*2 - 6
		}
		out[n-1], out[n-2] = out[n-2], out[n-1]
	case "all-equal":
		v := rng.IntN(5) - 2
		for i := range out {
			out[i] = v
		}
	default:
		for i := range out {
			out[i] = rng.IntN(21) - 10
		}
	}
	return out
}

func lenClass(n int) string {
	switch {
	case n == 0:
		return "0"
	case n == 1:
		return "1"
	case n == 2:
		return "2"
	case n <= 5:
		return "3-5"
	case n <= 10:
		return "6-10"
	}
	return ">10"
}

func listKV(l *dt.List[kv], capN int) ([]kv, bool) {
	var out []kv
	k := 0
	for e := l.Front(); e.Ok(); e = e.Next() {
		out = append(out, e.Value())
		k++
		if k > capN+3 {
			return out, false
		}
	}
	return out, true
}

func runC17(r *kit.Run) {
	cmps := c17comparators()
	n := int64(r.Scale(30000, 10000000))
	for i := int64(0); i < n && !r.Stopped(); i++ {
		if !r.Mine(i) {
			continue
		}
		rng := r.Rng("sort", i)
		class := c17classes[int(i)%len(c17classes)]
		cm := cmps[int(i/int64(len(c17classes)))%len(cmps)]
		keys := c17input(rng, class)
		in := make([]kv, len(keys))
		for j, k := range keys {
			in[j] = kv{k, j + 1}
		}
		opKind := int(i/int64(len(c17classes)*len(cmps))) % 8
		opName := [...]string{"SortMerge", "SortQuick", "IsSorted", "Heap", "Pairs.SortMerge", "Pairs.SortQuick", "Set.SortMerge", "Set.SortQuick"}[opKind]
		caseDesc := map[string]any{"op": opName, "class": class, "cmp": cm.name, "keys": keys}
		viol := func(kind, detail string) {
			r.Violation("C17/"+opName+"/"+kind, i, caseDesc, detail, nil)
		}
		r.Eval()
		r.Current(i, fmt.Sprintf("C17 %s of %v with %s", opName, keys, cm.name))
		if len(in) >= 2 {
			r.Distinct(opName + "|" + class + "|" + cm.name + "|" + lenClass(len(in)))
		}
		if r.WantSample() && len(in) > 2 {
			r.Sample(caseDesc)
		}
		panicked, pv, pst := kit.Guard(func() {
			switch opKind {
			case 0, 1:
				l := &dt.List[kv]{}
				l.Append(in...)
				handles := map[*dt.Element[kv]]bool{}
				for e := l.Front(); e.Ok(); e = e.Next() {
					handles[e] = true
				}
				if opKind == 0 {
					l.SortMerge(cm.lt)
				} else {
					l.SortQuick(cm.lt)
				}
				out, ok := listKV(l, len(in))
				if !ok {
					viol("cycle", fmt.Sprintf("forward walk after sort does not end: %v", out))
					return
				}
				if l.Len() != len(in) || len(out) != len(in) {
					viol("not-a-permutation", fmt.Sprintf("Len()=%d walk=%d input=%d: %v", l.Len(), len(out), len(in), out))
					return
				}
				seen := map[int]int{}
				for _, x := range out {
					seen[x.UID]++
				}
				for _, x := range in {
					if seen[x.UID] != 1 {
						viol("not-a-permutation", fmt.Sprintf("uid %d appears %d times after sort: %v", x.UID, seen[x.UID], out))
						return
					}
				}
				// the same elements, not copies of their values: every handle
				// taken before the sort is still a member, and the walk meets
				// nothing but those handles
				for e := l.Front(); e.Ok(); e = e.Next() {
					if !handles[e] {
						viol("not-the-previous-elements", fmt.Sprintf("after the sort the list holds an element (%v) that is not one of its previous elements", e.Value()))
						return
					}
				}
				for h := range handles {
					if !h.In(l) || !h.Ok() {
						viol("not-the-previous-elements", fmt.Sprintf("element %v held before the sort is no longer a member (In=%v Ok=%v)", h.Value(), h.In(l), h.Ok()))
						return
					}
				}
				for j := 1; j < len(out); j++ {
					if cm.strict(out[j], out[j-1]) {
						viol("out-of-order", fmt.Sprintf("position %d (%v) is less than its predecessor (%v): %v", j, out[j], out[j-1], out))
						return
					}
					if opKind == 1 && !cm.strict(out[j-1], out[j]) && cm.name != "cmp.Reverse" && out[j-1].UID > out[j].UID {
						viol("unstable", fmt.Sprintf("SortQuick reordered equal elements %v and %v: %v", out[j-1], out[j], out))
						return
					}
				}
				// the list remains fully usable: structure, membership, further ops
				var bw []kv
				k := 0
				for e := l.Back(); e.Ok() && k < len(in)+3; e = e.Previous() {
					bw = append(bw, e.Value())
					k++
				}
				for a, b := 0, len(bw)-1; a < b; a, b = a+1, b-1 {
					bw[a], bw[b] = bw[b], bw[a]
				}
				if fmt.Sprint(bw) != fmt.Sprint(out) {
					viol("unusable-after-sort", fmt.Sprintf("backward walk %v differs from forward walk %v", bw, out))
					return
				}
				for e := l.Front(); e.Ok(); e = e.Next() {
					if !e.In(l) {
						viol("unusable-after-sort", fmt.Sprintf("element %v is listed but not In(list)", e.Value()))
						return
					}
				}
				if sl := []kv(l.Slice()); fmt.Sprint(sl) != fmt.Sprint(out) {
					viol("unusable-after-sort", fmt.Sprintf("Slice() %v differs from walk %v", sl, out))
					return
				}
				if len(in) >= 2 {
					// a handle taken before the sort removes exactly its element
					var victim *dt.Element[kv]
					for h := range handles {
						if victim == nil || h.Value().UID < victim.Value().UID {
							victim = h
						}
					}
					vu := victim.Value().UID
					if !victim.Remove() || l.Len() != len(in)-1 {
						viol("unusable-after-sort", fmt.Sprintf("Remove() through a handle taken before the sort failed (Len=%d of %d)", l.Len(), len(in)))
						return
					}
					after, _ := listKV(l, len(in))
					for _, x := range after {
						if x.UID == vu {
							viol("unusable-after-sort", fmt.Sprintf("element uid %d removed through its handle is still met by the walk: %v", vu, after))
							return
						}
					}
					// put an equal element back where it was for the checks below
					idx := 0
					for k, x := range out {
						if x.UID == vu {
							idx = k
						}
					}
					ne := dt.NewElement(out[idx])
					if idx == 0 {
						l.PushFront(out[idx])
					} else {
						p := l.Front()
						for k := 1; k < idx; k++ {
							p = p.Next()
						}
						p.Append(ne)
					}
				}
				l.PushBack(kv{99, 1000})
				l.PushFront(kv{-99, 1001})
				if l.Len() != len(in)+2 || l.Front().Value().UID != 1001 || l.Back().Value().UID != 1000 {
					viol("unusable-after-sort", "pushes after the sort did not land at the ends")
					return
				}
				if f := l.PopFront(); !f.Ok() || f.Value().UID != 1001 {
					viol("unusable-after-sort", "PopFront after the sort failed")
					return
				}
				if b := l.PopBack(); !b.Ok() || b.Value().UID != 1000 {
					viol("unusable-after-sort", "PopBack after the sort failed")
					return
				}
				if len(in) > 0 {
					if f := l.PopFront(); !f.Ok() || f.Value() != out[0] || l.Len() != len(in)-1 {
						viol("unusable-after-sort", fmt.Sprintf("PopFront after the sort returned %v ok=%v, expected %v (Len now %d)", f.Value(), f.Ok(), out[0], l.Len()))
						return
					}
				}
				// sorting again terminates and keeps the order (runs in this
				// goroutine: a non-terminating sort is caught by the watchdog
				// and attributed through the .cur file)
				if rng.IntN(4) == 0 {
					r.Current(i, fmt.Sprintf("C17 second %s of %v with %s", opName, keys, cm.name))
					if opKind == 0 {
						l.SortMerge(cm.lt)
					} else {
						l.SortQuick(cm.lt)
					}
					out2, _ := listKV(l, len(in))
					for j := 1; j < len(out2); j++ {
						if cm.strict(out2[j], out2[j-1]) {
							viol("out-of-order", fmt.Sprintf("after a second sort position %d is out of order: %v", j, out2))
							return
						}
					}
					if l.Len() != len(out2) {
						viol("unusable-after-sort", "Len and walk disagree after a second sort")
					}
				}
			case 2:
				l := &dt.List[kv]{}
				l.Append(in...)
				want := true
				for j := 1; j < len(in); j++ {
					if cm.lt(in[j], in[j-1]) {
						want = false
					}
				}
				if got := l.IsSorted(cm.lt); got != want {
					viol("wrong-answer", fmt.Sprintf("IsSorted=%v, independent adjacent-pair scan says %v for %v", got, want, keys))
				}
				r.Count(fmt.Sprintf("issorted_%v", want), 1)
			case 6, 7:
				// dt.Set sorts its members through the same list code; a set
				// that was not ordered before is ordered by the sort. The set
				// stays usable: a member deleted afterwards is gone.
				st := &dt.Set[kv]{}
				if rng.IntN(2) == 0 {
					st.Order()
				}
				if rng.IntN(3) == 0 {
					st.Synchronize()
				}
				for _, x := range in {
					st.Add(x)
				}
				if opKind == 6 {
					st.SortMerge(cm.lt)
				} else {
					st.SortQuick(cm.lt)
				}
				walk := func() []kv {
					var out []kv
					it := st.Iterator()
					for k := 0; k < len(in)+3 && it.Next(context.Background()); k++ {
						out = append(out, it.Value())
					}
					_ = it.Close()
					return out
				}
				out := walk()
				if st.Len() != len(in) || len(out) != len(in) {
					viol("not-a-permutation", fmt.Sprintf("Len()=%d iterator=%d input=%d: %v", st.Len(), len(out), len(in), out))
					return
				}
				seen := map[int]int{}
				for _, x := range out {
					seen[x.UID]++
				}
				for _, x := range in {
					if seen[x.UID] != 1 {
						viol("not-a-permutation", fmt.Sprintf("uid %d appears %d times after sort: %v", x.UID, seen[x.UID], out))
						return
					}
				}
				for j := 1; j < len(out); j++ {
					if cm.strict(out[j], out[j-1]) {
						viol("out-of-order", fmt.Sprintf("position %d (%v) is less than its predecessor (%v): %v", j, out[j], out[j-1], out))
						return
					}
				}
				if len(in) > 0 {
					victim := in[rng.IntN(len(in))]
					st.Delete(victim)
					after := walk()
					if st.Check(victim) || st.Len() != len(in)-1 || len(after) != len(in)-1 {
						viol("unusable-after-sort", fmt.Sprintf("after Delete(%v): Check=%v Len()=%d iterator yields %d of %d: %v", victim, st.Check(victim), st.Len(), len(after), len(in)-1, after))
						return
					}
					for _, x := range after {
						if x == victim {
							viol("unusable-after-sort", fmt.Sprintf("the deleted member %v is still yielded: %v", victim, after))
							return
						}
					}
					for j := 1; j < len(after); j++ {
						if cm.strict(after[j], after[j-1]) {
							viol("unusable-after-sort", fmt.Sprintf("order lost after a Delete: %v", after))
							return
						}
					}
				}
			case 4, 5:
				// dt.Pairs sorts through the same list code
				ps := &dt.Pairs[int, int]{}
				for _, x := range in {
					ps.Add(x.K, x.UID)
				}
				plt := func(a, b dt.Pair[int, int]) bool { return cm.lt(kv{a.Key, a.Value}, kv{b.Key, b.Value}) }
				if opKind == 4 {
					ps.SortMerge(plt)
				} else {
					ps.SortQuick(plt)
				}
				var out []kv
				for _, pr := range ps.Slice() {
					out = append(out, kv{pr.Key, pr.Value})
				}
				if ps.Len() != len(in) || len(out) != len(in) {
					viol("not-a-permutation", fmt.Sprintf("Len()=%d Slice=%d input=%d: %v", ps.Len(), len(out), len(in), out))
					return
				}
				seen := map[int]int{}
				for _, x := range out {
					seen[x.UID]++
				}
				for _, x := range in {
					if seen[x.UID] != 1 {
						viol("not-a-permutation", fmt.Sprintf("uid %d appears %d times after sort: %v", x.UID, seen[x.UID], out))
						return
					}
				}
				for j := 1; j < len(out); j++ {
					if cm.strict(out[j], out[j-1]) {
						viol("out-of-order", fmt.Sprintf("position %d (%v) is less than its predecessor (%v): %v", j, out[j], out[j-1], out))
						return
					}
					if opKind == 5 && !cm.strict(out[j-1], out[j]) && cm.name != "cmp.Reverse" && out[j-1].UID > out[j].UID {
						viol("unstable", fmt.Sprintf("SortQuick reordered equal elements %v and %v: %v", out[j-1], out[j], out))
						return
					}
				}
				ps.Add(1000, 1000)
				if sl := ps.Slice(); ps.Len() != len(in)+1 || sl[len(sl)-1].Value != 1000 {
					viol("unusable-after-sort", "Add after the sort did not land at the end")
				}
			case 3:
				var h *dt.Heap[kv]
				if mode := rng.IntN(5); mode == 0 && len(in) >= 2 {
					// the source fails part-way: the constructor reports it, and the
					// heap it hands back holds what was read; the caller goes on with it
					k := 1 + rng.IntN(len(in)-1)
					boom := errors.New("source failed")
					var i int
					src := fun.Generator(func(context.Context) (kv, error) {
						if i >= k {
							return kv{}, boom
						}
						i++
						return in[i-1], nil
					})
					var err error
					h, err = dt.NewHeapFromIterator(context.Background(), cm.lt, src)
					if !errors.Is(err, boom) {
						viol("constructor", fmt.Sprintf("NewHeapFromIterator over a source that fails after %d items returned %v", k, err))
						return
					}
					if h == nil || h.Len() != k {
						return // what a failed construction hands back is not specified further
					}
					for _, x := range in[k:] {
						h.Push(x)
					}
				} else if mode <= 2 {
					var err error
					h, err = dt.NewHeapFromIterator(context.Background(), cm.lt, fun.SliceIterator(append([]kv(nil), in...)))
					if err != nil {
						viol("constructor", fmt.Sprintf("NewHeapFromIterator: %v", err))
						return
					}
				} else {
					h = &dt.Heap[kv]{LT: cm.lt}
					for _, x := range in {
						h.Push(x)
					}
				}
				if h.Len() != len(in) {
					viol("len", fmt.Sprintf("Heap.Len()=%d after %d pushes", h.Len(), len(in)))
					return
				}
				// interleave some pops and pushes
				var popped []kv
				extra := 0
				for h.Len() > 0 && len(popped) < len(in)+8 {
					v, ok := h.Pop()
					if !ok {
						viol("pop-not-ok", "Pop reported not-ok on a non-empty heap")
						return
					}
					popped = append(popped, v)
					if extra < 2 && rng.IntN(4) == 0 && len(popped) < len(in) {
						// push a value that is not smaller than what was popped
						nx := kv{v.K, 500 + extra}
						h.Push(nx)
						in = append(in, nx)
						extra++
					}
				}
				if _, ok := h.Pop(); ok {
					viol("pop-ok-on-empty", "Pop reported ok on an empty heap")
					return
				}
				seen := map[int]int{}
				for _, x := range popped {
					seen[x.UID]++
				}
				for _, x := range in {
					if seen[x.UID] != 1 {
						viol("not-exactly-once", fmt.Sprintf("uid %d popped %d times: %v", x.UID, seen[x.UID], popped))
						return
					}
				}
				for j := 1; j < len(popped); j++ {
					if cm.strict(popped[j], popped[j-1]) {
						viol("out-of-order", fmt.Sprintf("pop %d (%v) is less than the previous pop (%v): %v", j, popped[j], popped[j-1], popped))
						return
					}
				}
			}
		})
		if panicked {
			viol("panic", fmt.Sprintf("panic: %v\n%s", pv, clipS(pst, 1500)))
		}
	}
	_ = sort.Ints
}
