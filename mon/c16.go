package mon

import (
	"context"
	"encoding/json"
	"fmt"
	"math/rand/v2"
	"sort"
	"strings"

	"github.com/tychoish/fun"
	"github.com/tychoish/fun/dt"
	"github.com/tychoish/fun/dt/cmp"

	"verif/kit"
)

// C16 — dt.List and dt.Stack stay well-formed and match a sequence
// model. Reference-model monitor in lock-step: after every operation
// of a generated program the real container is walked in every
// documented way and compared with a slice model that was written from
// the documentation.

func init() { register("C16", runC16) }

func runC16(r *kit.Run) {
	n := int64(r.Scale(24000, 5000000))
	for i := int64(0); i < n && !r.Stopped(); i++ {
		if !r.Mine(i) {
			continue
		}
		rng := r.Rng("list", i)
		// half of the programs avoid the two operations with a recorded
		// finding so that everything else is explored at full depth
		withKnown := i%2 == 0
		c16ListProgram(r, i, rng, withKnown)
		rng = r.Rng("stack", i)
		c16StackProgram(r, i, rng, withKnown)
	}
}

// ---- List ---------------------------------------------------------------

type lhandle struct {
	e     *dt.Element[int]
	where int  // -1 detached, 0/1 index of the list it is in
	ok    bool // documented Ok()
	val   int
	root  bool
}

type listModel struct {
	lists   [2]*dt.List[int]
	seq     [2][]*lhandle // model sequences
	handles []*lhandle
	byPtr   map[*dt.Element[int]]*lhandle
}

func (m *listModel) handleFor(e *dt.Element[int]) *lhandle {
	if h, ok := m.byPtr[e]; ok {
		return h
	}
	h := &lhandle{e: e, where: -1}
	m.byPtr[e] = h
	m.handles = append(m.handles, h)
	return h
}

func (m *listModel) vals(li int) []int {
	out := make([]int, len(m.seq[li]))
	for i, h := range m.seq[li] {
		out[i] = h.val
	}
	return out
}

func (m *listModel) indexOf(h *lhandle) int {
	for i, x := range m.seq[h.where] {
		if x == h {
			return i
		}
	}
	return -1
}

func (m *listModel) insertAt(li, pos int, h *lhandle) {
	s := m.seq[li]
	s = append(s, nil)
	copy(s[pos+1:], s[pos:])
	s[pos] = h
	m.seq[li] = s
	h.where = li
}

func (m *listModel) removeH(h *lhandle) {
	i := m.indexOf(h)
	s := m.seq[h.where]
	m.seq[h.where] = append(s[:i:i], s[i+1:]...)
	h.where = -1
}

// check compares every documented view of both lists with the model.
// It returns a kind ("" when everything agrees) and a description.
func (m *listModel) check() (string, string) {
	for li := 0; li < 2; li++ {
		l := m.lists[li]
		want := m.vals(li)
		if l.Len() != len(want) {
			return "len-mismatch", fmt.Sprintf("list %d: Len()=%d model=%d %v", li, l.Len(), len(want), want)
		}
		// forward walk with pointer identity
		var fw []int
		e := l.Front()
		steps := 0
		for ; e.Ok() && steps < len(want)+3; e = e.Next() {
			if steps < len(want) && m.seq[li][steps].e != e {
				return "walk-mismatch", fmt.Sprintf("list %d: forward walk position %d is not the element the model has there (got value %v, model %v)", li, steps, e.Value(), want)
			}
			fw = append(fw, e.Value())
			steps++
			if e.Next() == nil {
				return "walk-mismatch", fmt.Sprintf("list %d: forward walk reached a nil Next() after %v (model %v)", li, fw, want)
			}
		}
		if !eqInts(fw, want) {
			return "walk-mismatch", fmt.Sprintf("list %d: forward walk %v, model %v", li, fw, want)
		}
		var bw []int
		e = l.Back()
		steps = 0
		for ; e.Ok() && steps < len(want)+3; e = e.Previous() {
			bw = append(bw, e.Value())
			steps++
			if e.Previous() == nil {
				return "walk-mismatch", fmt.Sprintf("list %d: backward walk reached a nil Previous() after %v (model %v)", li, bw, want)
			}
		}
		reverseInts(bw)
		if !eqInts(bw, want) {
			return "walk-mismatch", fmt.Sprintf("list %d: reversed backward walk %v, model %v", li, bw, want)
		}
		if got := []int(l.Slice()); !eqInts(got, want) {
			return "walk-mismatch", fmt.Sprintf("list %d: Slice() %v, model %v", li, got, want)
		}
		ctx := context.Background()
		it := l.Iterator()
		var iv []int
		for k := 0; k < len(want)+3 && it.Next(ctx); k++ {
			iv = append(iv, it.Value())
		}
		if !eqInts(iv, want) {
			return "walk-mismatch", fmt.Sprintf("list %d: Iterator() %v, model %v", li, iv, want)
		}
		rit := l.Reverse()
		var rv []int
		for k := 0; k < len(want)+3 && rit.Next(ctx); k++ {
			rv = append(rv, rit.Value())
		}
		reverseInts(rv)
		if !eqInts(rv, want) {
			return "walk-mismatch", fmt.Sprintf("list %d: reversed Reverse() %v, model %v", li, rv, want)
		}
	}
	for hi, h := range m.handles {
		for li := 0; li < 2; li++ {
			wantIn := h.where == li
			if h.root {
				wantIn = h.where == li
			}
			if got := h.e.In(m.lists[li]); got != wantIn {
				return "in-mismatch", fmt.Sprintf("handle #%d (val %d, model where=%d root=%v): In(list %d)=%v", hi, h.val, h.where, h.root, li, got)
			}
		}
		if got := h.e.Ok(); got != h.ok {
			return "ok-mismatch", fmt.Sprintf("handle #%d (model ok=%v): Ok()=%v", hi, h.ok, got)
		}
		if h.ok && h.e.Value() != h.val {
			return "value-mismatch", fmt.Sprintf("handle #%d: Value()=%d model %d", hi, h.e.Value(), h.val)
		}
	}
	return "", ""
}

func eqInts(a, b []int) bool {
	if len(a) != len(b) {
		return false
	}
	for i := range a {
		if a[i] != b[i] {
			return false
		}
	}
	return true
}

func reverseInts(a []int) {
	for i, j := 0, len(a)-1; i < j; i, j = i+1, j-1 {
		a[i], a[j] = a[j], a[i]
	}
}

func c16ListProgram(r *kit.Run, idx int64, rng *rand.Rand, withKnown bool) {
	m := &listModel{byPtr: map[*dt.Element[int]]*lhandle{}}
	m.lists[0], m.lists[1] = &dt.List[int]{}, &dt.List[int]{}
	nops := 1 + rng.IntN(40)
	var script []string
	opsSeen := map[string]bool{}
	nextVal := 1
	fresh := func() int { nextVal++; return nextVal*10 + rng.IntN(3) - 20*rng.IntN(2)*nextVal }

	// the two roots are handles too (Front() of an empty list)
	for li := 0; li < 2; li++ {
		rt := m.lists[li].Front()
		h := m.handleFor(rt)
		h.root, h.where, h.ok = true, li, false
	}
	// a detached, never attached element and a nil handle
	loose := m.handleFor(dt.NewElement(777))
	loose.ok, loose.val = true, 777

	if idx%64 == 0 {
		// documented nil-safety of the read-only accessors
		var nilE *dt.Element[int]
		pn, pv, _ := kit.Guard(func() {
			if nilE.Ok() || nilE.In(m.lists[0]) {
				r.Violation("C16/List.Element.nil/true-on-nil", idx, nil, "Ok() or In() is true for a nil element", nil)
			}
		})
		if pn {
			r.Violation("C16/List.Element.In/panic-on-nil", idx, map[string]any{"script": []string{"(*Element)(nil).In(list)"}},
				fmt.Sprintf("In is documented to return false when the element is nil, it panicked: %v", pv), nil)
			return
		}
	}
	pick := func() *lhandle { return m.handles[rng.IntN(len(m.handles))] }
	pickAttached := func() *lhandle {
		var c []*lhandle
		for _, h := range m.handles {
			if h.where >= 0 && !h.root {
				c = append(c, h)
			}
		}
		if len(c) == 0 {
			return nil
		}
		return c[rng.IntN(len(c))]
	}
	report := func(op, kind, detail string) {
		sig := "C16/List." + op + "/" + kind
		r.Violation(sig, idx, map[string]any{"container": "List", "with_known_ops": withKnown, "script": script}, detail, nil)
	}

	for step := 0; step < nops; step++ {
		li := rng.IntN(2)
		l := m.lists[li]
		op := ""
		retDetail := ""
		known := ""
		panicked, pv, pst := kit.Guard(func() {
			switch c := rng.IntN(22); c {
			case 0, 1:
				op = "PushFront"
				v := fresh()
				script = append(script, fmt.Sprintf("L%d.PushFront(%d)", li, v))
				l.PushFront(v)
				h := m.handleFor(l.Front())
				h.ok, h.val = true, v
				m.insertAt(li, 0, h)
			case 2, 3, 4:
				op = "PushBack"
				v := fresh()
				script = append(script, fmt.Sprintf("L%d.PushBack(%d)", li, v))
				l.PushBack(v)
				h := m.handleFor(l.Back())
				h.ok, h.val = true, v
				m.insertAt(li, len(m.seq[li]), h)
			case 5:
				op = "Append"
				a, b := fresh(), fresh()
				if rng.IntN(2) == 0 {
					// the same two values arrive through an iterator
					op = "Populate"
					script = append(script, fmt.Sprintf("L%d.Populate(iterator of %d,%d)", li, a, b))
					if err := l.Populate(fun.SliceIterator([]int{a, b})).Run(context.Background()); err != nil {
						retDetail = "Populate: " + err.Error()
						return
					}
				} else {
					script = append(script, fmt.Sprintf("L%d.Append(%d,%d)", li, a, b))
					l.Append(a, b)
				}
				hb := m.handleFor(l.Back())
				ha := m.handleFor(l.Back().Previous())
				ha.ok, ha.val, hb.ok, hb.val = true, a, true, b
				m.insertAt(li, len(m.seq[li]), ha)
				m.insertAt(li, len(m.seq[li]), hb)
			case 6, 7:
				front := c == 6
				op = map[bool]string{true: "PopFront", false: "PopBack"}[front]
				script = append(script, fmt.Sprintf("L%d.%s()", li, op))
				var e *dt.Element[int]
				if front {
					e = l.PopFront()
				} else {
					e = l.PopBack()
				}
				if len(m.seq[li]) == 0 {
					if e.Ok() {
						retDetail = "pop on an empty list returned an Ok element"
					}
					if e != nil && m.byPtr[e] == nil {
						h := m.handleFor(e)
						h.ok = false
					} else if e != nil && m.byPtr[e] != nil && !m.byPtr[e].root {
						retDetail = "pop on an empty list returned a known element"
					}
					return
				}
				var want *lhandle
				if front {
					want = m.seq[li][0]
				} else {
					want = m.seq[li][len(m.seq[li])-1]
				}
				if e != want.e {
					retDetail = fmt.Sprintf("%s returned a different element (value %v) than the one at that end (value %d)", op, e.Value(), want.val)
				}
				m.removeH(want)
			case 8, 9:
				op = "Element.Append"
				h, n := pick(), pick()
				if rng.IntN(12) == 0 {
					n = nil
				}
				if h.where < 0 && rng.IntN(3) > 0 {
					if a := pickAttached(); a != nil {
						h = a
					}
				}
				var ne *dt.Element[int]
				desc := "nil"
				valid := false
				if n != nil {
					ne = n.e
					desc = describeH(m, n)
					valid = n.ok && n.where < 0 && !n.root && h.where >= 0
				}
				script = append(script, fmt.Sprintf("%s.Append(%s)", describeH(m, h), desc))
				got := h.e.Append(ne)
				if valid {
					if got != ne {
						retDetail = "a valid Append did not return the new element"
					}
					pos := 0
					if !h.root {
						pos = m.indexOf(h) + 1
					}
					m.insertAt(h.where, pos, n)
				} else if got != h.e {
					retDetail = "a rejected Append did not return the receiver"
				}
			case 10, 11:
				op = "Element.Remove"
				h := pick()
				script = append(script, fmt.Sprintf("%s.Remove()", describeH(m, h)))
				valid := h.where >= 0 && !h.root
				got := h.e.Remove()
				if got != valid {
					retDetail = fmt.Sprintf("Remove returned %v, documented %v", got, valid)
				}
				if valid {
					m.removeH(h)
				}
			case 12:
				op = "Element.Drop"
				h := pick()
				script = append(script, fmt.Sprintf("%s.Drop()", describeH(m, h)))
				valid := h.where >= 0 && !h.root
				h.e.Drop()
				if valid {
					m.removeH(h)
					h.ok, h.val = false, 0
				}
			case 13:
				op = "Element.Set"
				h := pick()
				v := fresh()
				script = append(script, fmt.Sprintf("%s.Set(%d)", describeH(m, h), v))
				if rng.IntN(10) == 0 {
					var nilE *dt.Element[int]
					if nilE.Set(v) {
						retDetail = "Set on a nil element returned true"
					}
					return
				}
				want := !h.root
				if got := h.e.Set(v); got != want {
					retDetail = fmt.Sprintf("Set returned %v, documented %v", got, want)
				}
				if want {
					h.ok, h.val = true, v
				}
			case 14:
				op = "Element.Swap"
				h, w := pick(), pick()
				if !withKnown || rng.IntN(3) > 0 {
					// rejected variants only (and always in programs that avoid the known finding)
					switch rng.IntN(4) {
					case 0:
						w = h
					case 1:
						w = nil
					case 2: // cross list / detached
						if h.where >= 0 && w.where == h.where && !w.root {
							w = loose
						}
					default:
						if h.where >= 0 && w != nil && w.where == h.where {
							w = nil
						}
					}
				}
				var we *dt.Element[int]
				desc := "nil"
				if w != nil {
					we, desc = w.e, describeH(m, w)
				}
				script = append(script, fmt.Sprintf("%s.Swap(%s)", describeH(m, h), desc))
				valid := w != nil && w != h && h.where >= 0 && w.where == h.where
				if valid && (h.root || w.root) {
					// moving the head is documented as a wrap-around; the
					// model does not define it: do not execute
					script[len(script)-1] += " (skipped: root)"
					return
				}
				if valid && !withKnown {
					script[len(script)-1] += " (skipped)"
					return
				}
				got := h.e.Swap(we)
				if got != valid {
					retDetail = fmt.Sprintf("Swap returned %v, documented %v", got, valid)
				}
				if valid {
					known = "C16/Element.Swap/walk-mismatch"
					i, j := m.indexOf(h), m.indexOf(w)
					s := m.seq[h.where]
					s[i], s[j] = s[j], s[i]
				}
			case 15:
				op = "Extend"
				oi := 1 - li
				script = append(script, fmt.Sprintf("L%d.Extend(L%d)", li, oi))
				l.Extend(m.lists[oi])
				for _, h := range m.seq[oi] {
					h.where = li
				}
				m.seq[li] = append(m.seq[li], m.seq[oi]...)
				m.seq[oi] = nil
			case 16:
				op = "Copy"
				script = append(script, fmt.Sprintf("L%d.Copy()", li))
				cp := l.Copy()
				want := m.vals(li)
				var got []int
				k := 0
				for e := cp.Front(); e.Ok() && k < len(want)+3; e = e.Next() {
					got = append(got, e.Value())
					if m.byPtr[e] != nil {
						retDetail = "Copy shares an element with its source"
					}
					k++
				}
				if !eqInts(got, want) || cp.Len() != len(want) {
					retDetail = fmt.Sprintf("Copy yields %v (Len %d), source model %v", got, cp.Len(), want)
				}
			case 17, 18:
				merge := c == 17
				op = map[bool]string{true: "SortMerge", false: "SortQuick"}[merge]
				script = append(script, fmt.Sprintf("L%d.%s(<)", li, op))
				if merge {
					l.SortMerge(cmp.LessThanNative[int])
				} else {
					l.SortQuick(cmp.LessThanNative[int])
				}
				s := m.seq[li]
				sort.SliceStable(s, func(a, b int) bool { return s[a].val < s[b].val })
				if merge {
					// merge sort need not be stable: take the handle
					// order among equal values from the list itself
					c16Reorder(m, li)
				}
			case 19:
				op = "JSON"
				script = append(script, fmt.Sprintf("L%d.MarshalJSON()+L%d.UnmarshalJSON", li, 1-li))
				b, err := l.MarshalJSON()
				wantB, _ := json.Marshal(m.vals(li))
				if len(m.seq[li]) == 0 {
					wantB = []byte("[]")
				}
				if err != nil || string(b) != string(wantB) {
					retDetail = fmt.Sprintf("MarshalJSON=%s err=%v, expected %s", b, err, wantB)
					return
				}
				oi := 1 - li
				before := len(m.seq[oi])
				if err := m.lists[oi].UnmarshalJSON(b); err != nil {
					retDetail = "UnmarshalJSON failed: " + err.Error()
					return
				}
				// new elements were appended at the back
				vals := m.vals(li)
				e := m.lists[oi].Front()
				for k := 0; k < before && e.Ok(); k++ {
					e = e.Next()
				}
				for _, v := range vals {
					if !e.Ok() {
						break
					}
					h := m.handleFor(e)
					h.ok, h.val = true, v
					m.insertAt(oi, len(m.seq[oi]), h)
					e = e.Next()
				}
			case 20:
				op = "PopIterator"
				k := rng.IntN(3)
				script = append(script, fmt.Sprintf("L%d.PopIterator() x%d", li, k))
				it := l.PopIterator()
				for s := 0; s < k; s++ {
					ok := it.Next(context.Background())
					if len(m.seq[li]) == 0 {
						if ok {
							retDetail = "PopIterator yielded from an empty list"
						}
						break
					}
					h := m.seq[li][0]
					if !ok || it.Value() != h.val {
						retDetail = fmt.Sprintf("PopIterator yielded ok=%v %d, front of the model is %d", ok, it.Value(), h.val)
						break
					}
					m.removeH(h)
				}
			case 21:
				op = "PopReverse"
				k := rng.IntN(3)
				script = append(script, fmt.Sprintf("L%d.PopReverse() x%d", li, k))
				it := l.PopReverse()
				for s := 0; s < k; s++ {
					ok := it.Next(context.Background())
					if len(m.seq[li]) == 0 {
						if ok {
							retDetail = "PopReverse yielded from an empty list"
						}
						break
					}
					h := m.seq[li][len(m.seq[li])-1]
					if !ok || it.Value() != h.val {
						retDetail = fmt.Sprintf("PopReverse yielded ok=%v %d, back of the model is %d", ok, it.Value(), h.val)
						break
					}
					m.removeH(h)
				}
			}
		})
		opsSeen[op] = true
		if panicked {
			report(op, "panic", fmt.Sprintf("panic: %v\n%s", pv, clipS(pst, 1500)))
			return
		}
		var kind, detail string
		cp, cv, _ := kit.Guard(func() { kind, detail = m.check() })
		if cp {
			kind, detail = "panic-in-walk", fmt.Sprint(cv)
		}
		if retDetail != "" && kind == "" {
			kind, detail = "ret-mismatch", retDetail
		}
		if kind != "" {
			if known != "" && kind != "ret-mismatch" {
				// the recorded finding: classified by its own signature,
				// the program stops (the structure is corrupt)
				r.Violation(known, idx, map[string]any{"container": "List", "script": script}, detail, nil)
				r.Eval()
				return
			}
			report(op, kind, detail)
			return
		}
	}
	r.Eval()
	if len(opsSeen) >= 3 {
		keys := make([]string, 0, len(opsSeen))
		for k := range opsSeen {
			keys = append(keys, k)
		}
		sort.Strings(keys)
		r.Distinct("list:" + strings.Join(keys, ","))
	}
	r.Count("list_ops", int64(nops))
	if r.WantSample() {
		r.Sample(map[string]any{"container": "List", "script": script, "final_model": [2][]int{m.vals(0), m.vals(1)}})
	}
}

// c16Reorder re-derives the order of handles with equal values from the
// list itself after an unstable sort (the values' order is still
// checked against the model).
func c16Reorder(m *listModel, li int) {
	s := m.seq[li]
	pos := map[*dt.Element[int]]int{}
	k := 0
	for e := m.lists[li].Front(); e.Ok() && k < len(s)+3; e = e.Next() {
		pos[e] = k
		k++
	}
	sort.SliceStable(s, func(a, b int) bool {
		if s[a].val != s[b].val {
			return s[a].val < s[b].val
		}
		pa, oka := pos[s[a].e]
		pb, okb := pos[s[b].e]
		if oka && okb {
			return pa < pb
		}
		return false
	})
}

func describeH(m *listModel, h *lhandle) string {
	switch {
	case h.root:
		return fmt.Sprintf("root(L%d)", h.where)
	case h.where >= 0:
		return fmt.Sprintf("L%d[%d]=%d", h.where, m.indexOf(h), h.val)
	case !h.ok:
		return "dropped"
	default:
		return fmt.Sprintf("detached(%d)", h.val)
	}
}

func clipS(s string, n int) string {
	if len(s) > n {
		return s[:n]
	}
	return s
}

// ---- Stack --------------------------------------------------------------

type shandle struct {
	it       *dt.Item[int]
	in       bool
	ok       bool
	val      int
	sentinel bool
}

func c16StackProgram(r *kit.Run, idx int64, rng *rand.Rand, withKnown bool) {
	s := &dt.Stack[int]{}
	var seq []*shandle // top first
	byPtr := map[*dt.Item[int]]*shandle{}
	var handles []*shandle
	hfor := func(it *dt.Item[int]) *shandle {
		if h, ok := byPtr[it]; ok {
			return h
		}
		h := &shandle{it: it}
		byPtr[it] = h
		handles = append(handles, h)
		return h
	}
	var script []string
	opsSeen := map[string]bool{}
	nv := 0
	fresh := func() int { nv++; return nv*7 - 30 }
	loose := hfor(dt.NewItem(555))
	loose.ok, loose.val = true, 555
	vals := func() []int {
		out := make([]int, len(seq))
		for i, h := range seq {
			out[i] = h.val
		}
		return out
	}
	check := func() (string, string) {
		want := vals()
		if s.Len() != len(want) {
			return "len-mismatch", fmt.Sprintf("Len()=%d model %v", s.Len(), want)
		}
		var got []int
		k := 0
		for it := s.Head(); it.Ok() && k < len(want)+3; it = it.Next() {
			if k < len(seq) && seq[k].it != it {
				return "walk-mismatch", fmt.Sprintf("Head/Next walk position %d is not the item the model has there (value %d, model %v)", k, it.Value(), want)
			}
			got = append(got, it.Value())
			k++
		}
		if !eqInts(got, want) {
			return "walk-mismatch", fmt.Sprintf("Head/Next walk %v, model %v", got, want)
		}
		iter := s.Iterator()
		var iv []int
		for k := 0; k < len(want)+3 && iter.Next(context.Background()); k++ {
			iv = append(iv, iter.Value())
		}
		if !eqInts(iv, want) {
			return "walk-mismatch", fmt.Sprintf("Iterator %v, model %v", iv, want)
		}
		b, err := s.MarshalJSON()
		wb, _ := json.Marshal(want)
		if len(want) == 0 {
			wb = []byte("[]")
		}
		if err != nil || string(b) != string(wb) {
			return "json-mismatch", fmt.Sprintf("MarshalJSON=%s err=%v, model %s", b, err, wb)
		}
		for hi, h := range handles {
			if h.sentinel {
				continue
			}
			if got := h.it.In(s); got != h.in {
				return "in-mismatch", fmt.Sprintf("item #%d (val %d): In(stack)=%v, model %v", hi, h.val, got, h.in)
			}
			if got := h.it.Ok(); got != h.ok {
				return "ok-mismatch", fmt.Sprintf("item #%d: Ok()=%v, model %v", hi, got, h.ok)
			}
		}
		return "", ""
	}
	desc := func(h *shandle) string {
		switch {
		case h.sentinel:
			return "sentinel"
		case h.in:
			for i, x := range seq {
				if x == h {
					return fmt.Sprintf("S[%d]=%d", i, h.val)
				}
			}
			return "S[?]"
		default:
			return fmt.Sprintf("detached(%d)", h.val)
		}
	}
	remove := func(h *shandle) {
		for i, x := range seq {
			if x == h {
				seq = append(seq[:i:i], seq[i+1:]...)
				break
			}
		}
		h.in = false
	}
	nops := 1 + rng.IntN(30)
	for step := 0; step < nops; step++ {
		op, retDetail, known := "", "", ""
		panicked, pv, pst := kit.Guard(func() {
			switch c := rng.IntN(14); c {
			case 0, 1, 2, 3:
				op = "Push"
				v := fresh()
				script = append(script, fmt.Sprintf("Push(%d)", v))
				s.Push(v)
				h := hfor(s.Head())
				if h.in || h.sentinel {
					// the push did not create a new top item; the walk
					// check below reports the divergence
					hh := &shandle{val: v, ok: true, in: true}
					seq = append([]*shandle{hh}, seq...)
					return
				}
				h.ok, h.val, h.in = true, v, true
				seq = append([]*shandle{h}, seq...)
			case 4:
				op = "Append"
				a, b := fresh(), fresh()
				script = append(script, fmt.Sprintf("Append(%d,%d)", a, b))
				s.Append(a, b)
				hb := hfor(s.Head())
				ha := hfor(s.Head().Next())
				ha.ok, ha.val, ha.in, hb.ok, hb.val, hb.in = true, a, true, true, b, true
				seq = append([]*shandle{hb, ha}, seq...)
			case 5, 6, 7:
				op = "Pop"
				script = append(script, "Pop()")
				it := s.Pop()
				if len(seq) == 0 {
					if it.Ok() {
						retDetail = "Pop on an empty stack returned an Ok item"
					}
					if it != nil && byPtr[it] == nil {
						h := hfor(it)
						h.sentinel = true
					}
					return
				}
				if it != seq[0].it {
					retDetail = fmt.Sprintf("Pop returned value %d, top of the model is %d", it.Value(), seq[0].val)
				}
				remove(seq[0])
			case 8:
				op = "Item.Append"
				if len(handles) == 0 {
					return
				}
				h, n := handles[rng.IntN(len(handles))], handles[rng.IntN(len(handles))]
				if h.sentinel || n.sentinel {
					return
				}
				var ni *dt.Item[int]
				nd := "nil"
				valid := false
				if rng.IntN(8) > 0 {
					ni, nd = n.it, desc(n)
					valid = h.in && !n.in && n.ok
				}
				script = append(script, fmt.Sprintf("%s.Append(%s)", desc(h), nd))
				got := h.it.Append(ni)
				if valid {
					if got != ni {
						retDetail = "a valid Item.Append did not return the new item"
					}
					n.in = true
					seq = append([]*shandle{n}, seq...)
				} else if got != h.it {
					retDetail = "a rejected Item.Append did not return the receiver"
				}
			case 9, 10:
				op = "Item.Remove"
				if len(handles) == 0 {
					return
				}
				h := handles[rng.IntN(len(handles))]
				if h.sentinel {
					return
				}
				valid := h.in && h.ok
				if valid && !withKnown {
					return
				}
				script = append(script, fmt.Sprintf("%s.Remove()", desc(h)))
				got := h.it.Remove()
				if got != valid {
					retDetail = fmt.Sprintf("Remove returned %v, documented %v", got, valid)
				}
				if valid {
					known = "C16/Stack.Item.Remove/not-unlinked"
					remove(h)
				}
			case 11:
				op = "Item.Set"
				if len(handles) == 0 {
					return
				}
				h := handles[rng.IntN(len(handles))]
				if h.sentinel {
					return
				}
				v := fresh()
				script = append(script, fmt.Sprintf("%s.Set(%d)", desc(h), v))
				if got := h.it.Set(v); !got {
					retDetail = "Set on a value item returned false"
				}
				h.val, h.ok = v, true
			case 12:
				op = "JSON"
				arr := []int{fresh(), fresh()}
				if rng.IntN(3) == 0 {
					arr = nil
				}
				b, _ := json.Marshal(arr)
				if arr == nil {
					b = []byte("[]")
				}
				script = append(script, fmt.Sprintf("UnmarshalJSON(%s)", b))
				if err := s.UnmarshalJSON(b); err != nil {
					retDetail = "UnmarshalJSON: " + err.Error()
					return
				}
				it := s.Head()
				var nh []*shandle
				for _, v := range arr {
					if !it.Ok() {
						break
					}
					h := hfor(it)
					h.ok, h.val, h.in = true, v, true
					nh = append(nh, h)
					it = it.Next()
				}
				seq = append(nh, seq...)
			case 13:
				op = "PopIterator"
				k := rng.IntN(3)
				script = append(script, fmt.Sprintf("PopIterator() x%d", k))
				iter := s.PopIterator()
				for i := 0; i < k; i++ {
					ok := iter.Next(context.Background())
					if len(seq) == 0 {
						if ok {
							retDetail = "PopIterator yielded from an empty stack"
						}
						break
					}
					if !ok || iter.Value() != seq[0].val {
						retDetail = fmt.Sprintf("PopIterator yielded ok=%v %d, top of the model is %d", ok, iter.Value(), seq[0].val)
						break
					}
					remove(seq[0])
				}
			}
		})
		opsSeen[op] = true
		report := func(kind, detail string) {
			r.Violation("C16/Stack."+op+"/"+kind, idx, map[string]any{"container": "Stack", "with_known_ops": withKnown, "script": script}, detail, nil)
		}
		if panicked {
			report("panic", fmt.Sprintf("panic: %v\n%s", pv, clipS(pst, 1500)))
			return
		}
		var kind, detail string
		cp, cv, _ := kit.Guard(func() { kind, detail = check() })
		if cp {
			kind, detail = "panic-in-walk", fmt.Sprint(cv)
		}
		if retDetail != "" && kind == "" {
			kind, detail = "ret-mismatch", retDetail
		}
		if kind != "" {
			if known != "" && kind != "ret-mismatch" {
				r.Violation(known, idx, map[string]any{"container": "Stack", "script": script}, detail, nil)
				r.Eval()
				return
			}
			report(kind, detail)
			return
		}
	}
	r.Eval()
	if len(opsSeen) >= 3 {
		keys := make([]string, 0, len(opsSeen))
		for k := range opsSeen {
			keys = append(keys, k)
		}
		sort.Strings(keys)
		r.Distinct("stack:" + strings.Join(keys, ","))
	}
	r.Count("stack_ops", int64(nops))
	if r.WantSample() {
		r.Sample(map[string]any{"container": "Stack", "script": script, "final_model": vals()})
	}
}
