package mon

import (
	"context"
	"fmt"
	"math/rand/v2"
	"os"
	"sort"
	"strings"
	"sync"
	"sync/atomic"
	"time"

	"github.com/tychoish/fun"
	"github.com/tychoish/fun/pubsub"

	"verif/kit"
)

// C08 — the broker delivers each message exactly once, in order, to
// every subscriber (lossless configurations), and never delivers an
// unpublished or duplicated message (every configuration).
// C09 (c09.go) re-uses the harness of this file.

func init() { register("C08", runC08) }

const c08Watchdog = 30 * time.Second

type brokerCfg struct {
	Backend  string `json:"backend"` // channel | queue-unlimited | deque-unlimited | deque-cap | queue-bounded | lifo
	Parallel bool   `json:"parallel_dispatch"`
	Workers  int    `json:"worker_pool_size"`
	Buffer   int    `json:"buffer_size"`
	Cap      int    `json:"capacity,omitempty"`
	Delay    string `json:"dispatch_delay"`
	Direct   bool   `json:"built_by_library_constructor,omitempty"` // NewBroker / NewQueueBroker / NewDequeBroker / NewLIFOBroker, no counting wrapper
}

func (c brokerCfg) lossless() bool {
	if c.Buffer != 0 {
		return false
	}
	switch c.Backend {
	case "channel", "queue-unlimited", "deque-unlimited":
		return true
	}
	return false
}

// quiescable: a Deque-backed broker with several idle dispatchers spins
// (two waiters on one condition variable), so the process never becomes
// quiescent (DESIGN 3.3).
func (c brokerCfg) quiescable() bool {
	return !(strings.HasPrefix(c.Backend, "deque") || c.Backend == "lifo") || c.Workers <= 1
}

type brokerHarness struct {
	cfg      brokerCfg
	b        *pubsub.Broker[uint32]
	cancel   context.CancelFunc
	ctx      context.Context
	accepted atomic.Int64 // distributor accepted (Send returned nil)
	popped   atomic.Int64 // distributor handed out (Receive returned nil)
	depth    func() int
}

func drawBrokerCfg(rng *rand.Rand, idx int64) brokerCfg {
	backends := []string{"channel", "queue-unlimited", "deque-unlimited", "deque-cap", "queue-bounded", "lifo"}
	c := brokerCfg{Backend: backends[int(idx)%len(backends)]}
	c.Parallel = rng.IntN(2) == 0
	c.Workers = []int{0, 1, 1, 2, 4}[rng.IntN(5)]
	if (c.Backend == "channel" || c.Backend == "queue-unlimited" || c.Backend == "queue-bounded") && rng.IntN(4) == 0 {
		// large dispatch pools: many workers parked on one condition variable
		// (Deque back-ends are excluded: their waiters spin, DESIGN 3.3)
		c.Workers = []int{8, 32, 96}[rng.IntN(3)]
	}
	c.Buffer = []int{0, 0, 0, 1, 8}[rng.IntN(5)]
	c.Cap = 1 + rng.IntN(6)
	c.Delay = []string{"none", "none", "yield", "spin"}[rng.IntN(4)]
	if rng.IntN(3) == 0 {
		c.Direct, c.Delay = true, "none"
	}
	return c
}

func newBrokerHarness(cfg brokerCfg) *brokerHarness {
	h := &brokerHarness{cfg: cfg}
	h.ctx, h.cancel = context.WithCancel(context.Background())
	if cfg.Direct {
		// the library's own constructors (and whatever distributor they pick)
		opts := pubsub.BrokerOptions{BufferSize: cfg.Buffer, ParallelDispatch: cfg.Parallel, WorkerPoolSize: cfg.Workers}
		h.depth = func() int { return 0 }
		switch cfg.Backend {
		case "channel":
			h.b = pubsub.NewBroker[uint32](h.ctx, opts)
		case "queue-unlimited":
			q := pubsub.NewUnlimitedQueue[uint32]()
			h.b, h.depth = pubsub.NewQueueBroker[uint32](h.ctx, q, opts), q.Len
		case "queue-bounded":
			q, err := pubsub.NewQueue[uint32](pubsub.QueueOptions{HardLimit: cfg.Cap, SoftQuota: cfg.Cap})
			if err != nil {
				panic(err)
			}
			h.b, h.depth = pubsub.NewQueueBroker[uint32](h.ctx, q, opts), q.Len
		case "deque-unlimited":
			d := pubsub.NewUnlimitedDeque[uint32]()
			h.b, h.depth = pubsub.NewDequeBroker[uint32](h.ctx, d, opts), d.Len
		case "deque-cap":
			d, err := pubsub.NewDeque[uint32](pubsub.DequeOptions{Capacity: cfg.Cap})
			if err != nil {
				panic(err)
			}
			h.b, h.depth = pubsub.NewDequeBroker[uint32](h.ctx, d, opts), d.Len
		default:
			h.b = pubsub.NewLIFOBroker[uint32](h.ctx, opts, cfg.Cap)
		}
		return h
	}
	var inner pubsub.Distributor[uint32]
	switch cfg.Backend {
	case "channel":
		inner = pubsub.DistributorChannel(make(chan uint32))
	case "queue-unlimited":
		inner = pubsub.NewUnlimitedQueue[uint32]().Distributor()
	case "deque-unlimited":
		inner = pubsub.NewUnlimitedDeque[uint32]().Distributor()
	case "deque-cap":
		d, err := pubsub.NewDeque[uint32](pubsub.DequeOptions{Capacity: cfg.Cap})
		if err != nil {
			panic(err)
		}
		inner = d.Distributor()
	case "queue-bounded":
		q, err := pubsub.NewQueue[uint32](pubsub.QueueOptions{HardLimit: cfg.Cap, SoftQuota: cfg.Cap})
		if err != nil {
			panic(err)
		}
		inner = q.Distributor()
	case "lifo":
		d, err := pubsub.NewDeque[uint32](pubsub.DequeOptions{Capacity: cfg.Cap})
		if err != nil {
			panic(err)
		}
		inner = d.DistributorNonBlocking()
	}
	h.depth = inner.Len
	// counting wrapper with an optional delay between pop and dispatch
	dist := pubsub.MakeDistributor(
		func(ctx context.Context, v uint32) error {
			err := inner.Send(ctx, v)
			if err == nil {
				h.accepted.Add(1)
			}
			return err
		},
		func(ctx context.Context) (uint32, error) {
			v, err := inner.Receive(ctx)
			if err == nil {
				h.popped.Add(1)
				switch cfg.Delay {
				case "yield":
					kit.Yields(3)
				case "spin":
					kit.Speed(kit.Spin).Pace(0, 1, uint64(v))
				}
			}
			return v, err
		},
		inner.Len,
	)
	h.b = pubsub.MakeDistributorBroker(h.ctx, dist, pubsub.BrokerOptions{BufferSize: cfg.Buffer, ParallelDispatch: cfg.Parallel, WorkerPoolSize: cfg.Workers})
	return h
}

type subRec struct {
	Kind      string // static | late | leaver
	ch        chan uint32
	subRet    int64 // stamp after Subscribe returned
	unsubCall int64 // stamp before Unsubscribe was called (0 = never during the run)
	mu        sync.Mutex
	got       []uint32
	stop      chan struct{}
	done      chan struct{}
	speed     kit.Speed
}

func (s *subRec) run() {
	defer close(s.done)
	k := 0
	for {
		select {
		case <-s.stop:
			return
		case v := <-s.ch:
			s.mu.Lock()
			s.got = append(s.got, v)
			s.mu.Unlock()
			kit.Stamp()
			s.speed.Pace(k, 1000, uint64(v))
			k++
		}
	}
}

func (s *subRec) snapshot() []uint32 {
	s.mu.Lock()
	defer s.mu.Unlock()
	return append([]uint32(nil), s.got...)
}

type pubRec struct {
	id        uint32
	call, ret int64
}

func runC08(r *kit.Run) {
	n := int64(r.Scale(840, 60000))
	if r.Build != "plain" {
		n /= 6
	}
	for i := int64(0); i < n && !r.Stopped(); i++ {
		if !r.Mine(i) {
			continue
		}
		c08Run(r, i, r.Rng("run", i))
	}
}

func c08Run(r *kit.Run, idx int64, rng *rand.Rand) {
	cfg := drawBrokerCfg(rng, idx)
	procs := brokerProcs(cfg, kit.ProcsFor(idx/6))
	npub := 1 + rng.IntN(4)
	nmsg := 1 + rng.IntN(60)
	if rng.IntN(6) == 0 {
		nmsg = 100 + rng.IntN(300)
	}
	nstatic := rng.IntN(4)
	nlate := rng.IntN(3)
	nleave := rng.IntN(2)
	// Unsubscribe of a channel that is not (or no longer) subscribed is a
	// no-op: a third of the scenarios repeat Unsubscribe calls (an explicit
	// one plus a deferred one) and unsubscribe channels the broker never saw
	redundant := 0
	if rng.IntN(3) == 0 {
		redundant = 1 + rng.IntN(3)
		nleave = 1 + rng.IntN(2)
	}
	// subscription churn: goroutines that keep subscribing and unsubscribing
	// fresh channels while the messages flow; the steady subscribers must not
	// notice (the subscriber set changes between two looks of a dispatcher)
	churners := 0
	if rng.IntN(4) == 0 {
		churners = 1 + rng.IntN(3)
		if nmsg < 150 {
			nmsg = 150 + rng.IntN(350)
		}
		if nstatic == 0 {
			nstatic = 1 + rng.IntN(3)
		}
		// and subscribers that join for good in the middle of the churn: what
		// is published after their Subscribe returned is theirs
		nlate += 3 + rng.IntN(4)
	}
	// joiner storm: a lossless broker that many subscribers join for good, in
	// pairs, while the messages flow
	if churners == 0 && rng.IntN(5) == 0 {
		cfg.Backend = []string{"queue-unlimited", "channel", "deque-unlimited"}[rng.IntN(3)]
		cfg.Buffer, cfg.Workers = 0, []int{0, 1, 1, 2}[rng.IntN(4)]
		if cfg.Backend == "deque-unlimited" && cfg.Workers > 1 {
			cfg.Workers = 1
		}
		procs = brokerProcs(cfg, []int{2, 4, 16}[rng.IntN(3)])
		nlate = 24 + 2*rng.IntN(9)
		nstatic = 8 + rng.IntN(40) // a long subscriber list: a dispatcher's look at it takes a while
		if nmsg < 200 {
			nmsg = 200 + rng.IntN(300)
		}
		npub = 1 + rng.IntN(2)
	}
	strangers := make([]int64, redundant) // publication counts at which a stranger channel is unsubscribed
	if nstatic+nlate == 0 {
		nstatic = 1
	}
	desc := map[string]any{"config": cfg, "publishers": npub, "messages_per_publisher": nmsg, "static_subscribers": nstatic, "late_joiners": nlate, "early_leavers": nleave, "redundant_unsubscribes": redundant, "subscription_churners": churners, "gomaxprocs": procs}
	r.Eval()
	r.Current(idx, fmt.Sprintf("C08 %+v", desc))
	t0 := time.Now()
	defer func() {
		if d := time.Since(t0); d > 500*time.Millisecond && os.Getenv("VERIF_DEBUG") != "" {
			fmt.Fprintf(os.Stderr, "slow C08 run %d: %v %+v\n", idx, d, desc)
		}
	}()
	var viol, violKind string
	note := func(k, s string) {
		if viol == "" {
			violKind, viol = k, s
		}
	}
	inconclusive := ""
	kit.WithProcs(procs, func() {
		h := newBrokerHarness(cfg)
		ctx := h.ctx
		var subs []*subRec
		// speeds are drawn up front: the generator is not safe for the
		// concurrent late joiners
		speeds := make([]kit.Speed, nstatic+nlate+nleave+1)
		for k := range speeds {
			speeds[k] = kit.RandSpeed(rng)
		}
		var nsub atomic.Int64
		addSub := func(kind string) *subRec {
			s := &subRec{Kind: kind, stop: make(chan struct{}), done: make(chan struct{}), speed: speeds[int(nsub.Add(1))%len(speeds)]}
			if s.speed == kit.SlowFirst || s.speed == kit.SlowLast {
				s.speed = kit.Yield1
			}
			s.ch = h.b.Subscribe(ctx)
			s.subRet = kit.Stamp()
			go s.run()
			return s
		}
		for k := 0; k < nstatic; k++ {
			subs = append(subs, addSub("static"))
		}
		var leavers []*subRec
		for k := 0; k < nleave; k++ {
			s := addSub("leaver")
			subs = append(subs, s)
			leavers = append(leavers, s)
		}
		// publishers
		pubs := make([][]pubRec, npub)
		var pwg sync.WaitGroup
		var published atomic.Int64
		pspeed := kit.RandSpeed(rng)
		viaPopulate := make([]bool, npub) // this publisher hands an iterator to Broker.Populate
		for p := range viaPopulate {
			viaPopulate[p] = rng.IntN(4) == 0
		}
		for p := 0; p < npub; p++ {
			pwg.Add(1)
			go func(p int) {
				defer pwg.Done()
				if viaPopulate[p] {
					ids := make([]uint32, nmsg)
					for m := range ids {
						ids[m] = uint32(p+1)<<16 | uint32(m+1)
					}
					// every message counts as called when Populate is started:
					// a subscriber that joined later than that is owed nothing
					c := kit.Stamp()
					_ = h.b.Populate(fun.SliceIterator(ids)).Run(ctx)
					ret := kit.Stamp()
					for _, id := range ids {
						pubs[p] = append(pubs[p], pubRec{id: id, call: c, ret: ret})
					}
					published.Add(int64(nmsg))
					return
				}
				for m := 0; m < nmsg; m++ {
					id := uint32(p+1)<<16 | uint32(m+1)
					c := kit.Stamp()
					h.b.Publish(ctx, id)
					pubs[p] = append(pubs[p], pubRec{id: id, call: c, ret: kit.Stamp()})
					published.Add(1)
					if pspeed != kit.Fast && m%4 == 0 {
						pspeed.Pace(m, nmsg, uint64(id))
					}
				}
			}(p)
		}
		// late joiners and early leavers act while publishing is under way
		var mmu sync.Mutex
		var mwg sync.WaitGroup
		total := int64(npub * nmsg)
		var prevAt int64
		var gate *kit.Barrier
		for k := 0; k < nlate; k++ {
			at := rng.Int64N(total + 1)
			var bar *kit.Barrier
			if k%2 == 1 {
				// joiners come in pairs: two subscription changes at the same moment
				at, bar = prevAt, gate
			} else if k+1 < nlate {
				gate = kit.NewBarrier(2)
				bar = gate
			}
			prevAt = at
			mwg.Add(1)
			go func() {
				defer mwg.Done()
				kit.WaitUntil(c08Watchdog, func() bool { return published.Load() >= at })
				if bar != nil {
					bar.Wait()
				}
				s := addSub("late")
				mmu.Lock()
				subs = append(subs, s)
				mmu.Unlock()
			}()
		}
		for _, s := range leavers {
			at := rng.Int64N(total + 1)
			s := s
			mwg.Add(1)
			go func() {
				defer mwg.Done()
				kit.WaitUntil(c08Watchdog, func() bool { return published.Load() >= at })
				s.unsubCall = kit.Stamp()
				h.b.Unsubscribe(ctx, s.ch)
				for k := 0; k < redundant; k++ {
					h.b.Unsubscribe(ctx, s.ch)
				}
			}()
		}
		var churned atomic.Int64
		for k := 0; k < churners; k++ {
			cseed := rng.Uint64()
			mwg.Add(1)
			go func() {
				defer mwg.Done()
				lr := rand.New(rand.NewPCG(cseed, 11))
				for k := 0; k < 400 && published.Load() < total; k++ {
					s := addSub("leaver")
					mmu.Lock()
					subs = append(subs, s)
					mmu.Unlock()
					if lr.IntN(2) == 0 {
						kit.Yields(lr.IntN(8))
					} else {
						// stay until a few messages have arrived
						want := 1 + lr.IntN(4)
						for spin := 0; spin < 2000 && len(s.snapshot()) < want && published.Load() < total; spin++ {
							kit.Yields(1)
						}
					}
					s.unsubCall = kit.Stamp()
					h.b.Unsubscribe(ctx, s.ch)
					churned.Add(1)
				}
			}()
		}
		defer func() { r.Count("subscriptions_churned", churned.Load()) }()
		for k := range strangers {
			strangers[k] = rng.Int64N(total + 1)
		}
		for _, at := range strangers {
			at := at
			mwg.Add(1)
			go func() {
				defer mwg.Done()
				kit.WaitUntil(c08Watchdog, func() bool { return published.Load() >= at })
				h.b.Unsubscribe(ctx, make(chan uint32))
			}()
		}
		pd := make(chan struct{})
		go func() { pwg.Wait(); mwg.Wait(); close(pd) }()
		if !kit.WaitUntil(c08Watchdog, func() bool {
			select {
			case <-pd:
				return true
			default:
				return false
			}
		}) {
			if cs, q := kit.Quiesce(c08Watchdog); isClosed(pd) {
				// finished late (slow machine): carry on below is not possible
				// any more for this run, count it and leave
				inconclusive = ""
				r.Count("runs_abandoned(publishers finished late)", 1)
			} else if q && cfg.quiescable() {
				note("publish-stalls", fmt.Sprintf("publishers are blocked although every subscriber keeps receiving; at quiescence: %v", cs.Describe()))
			} else {
				inconclusive = "publishers did not finish"
			}
			h.cancel()
			<-pd
			for _, s := range subs {
				close(s.stop)
			}
			return
		}
		mmu.Lock()
		all := append([]*subRec(nil), subs...)
		mmu.Unlock()
		// expected deliveries (lossless configurations)
		expected := func(s *subRec) map[uint32]bool {
			exp := map[uint32]bool{}
			if s.Kind == "leaver" {
				return exp // DESIGN 7(d): universal clauses only
			}
			for p := range pubs {
				for _, pr := range pubs[p] {
					if pr.call > s.subRet {
						exp[pr.id] = true
					}
				}
			}
			return exp
		}
		haveAll := func() bool {
			for _, s := range all {
				if s.Kind == "leaver" {
					continue
				}
				got := map[uint32]bool{}
				for _, v := range s.snapshot() {
					got[v] = true
				}
				for id := range expected(s) {
					if !got[id] {
						return false
					}
				}
			}
			return true
		}
		if cfg.lossless() {
			if !kit.WaitUntil(c08Watchdog/3, haveAll) {
				if !cfg.quiescable() {
					inconclusive = "deliveries incomplete and this configuration never becomes quiescent"
				} else if cs, q := kit.Quiesce(c08Watchdog); !q {
					inconclusive = "deliveries incomplete, not quiescent"
				} else if !haveAll() {
					for _, s := range all {
						got := map[uint32]bool{}
						for _, v := range s.snapshot() {
							got[v] = true
						}
						var missing []uint32
						for id := range expected(s) {
							if !got[id] {
								missing = append(missing, id)
							}
						}
						if len(missing) > 0 {
							sort.Slice(missing, func(a, b int) bool { return missing[a] < missing[b] })
							if len(missing) > 8 {
								missing = missing[:8]
							}
							note("message-lost", fmt.Sprintf("a %s subscriber that keeps receiving never got %d message(s) published after its Subscribe returned, e.g. %s (accepted=%d popped=%d depth=%d); at quiescence: %v",
								s.Kind, len(missing), fmtIDs(missing), h.accepted.Load(), h.popped.Load(), h.depth(), cs.Describe()))
							break
						}
					}
				}
			}
		} else {
			// load-shedding: wait until deliveries have settled
			last, stable := int64(-1), 0
			kit.WaitUntil(c08Watchdog/6, func() bool {
				var tot int64
				for _, s := range all {
					tot += int64(len(s.snapshot()))
				}
				if tot == last && h.depth() == 0 {
					stable++
				} else {
					last, stable = tot, 0
				}
				kit.Yields(20)
				return stable > 50
			})
		}
		// stop the subscribers, then the broker
		for _, s := range all {
			close(s.stop)
			<-s.done
		}
		h.b.Stop()
		h.b.Wait(context.Background())
		h.cancel()
		if viol != "" || inconclusive != "" {
			return
		}
		// universal clauses
		pubset := map[uint32]bool{}
		pubOrder := map[uint32]int{}
		for p := range pubs {
			for k, pr := range pubs[p] {
				pubset[pr.id] = true
				pubOrder[pr.id] = k
			}
		}
		for si, s := range all {
			seen := map[uint32]bool{}
			lastSeq := map[uint32]int{}
			maxIdx, hasIdx := map[uint32]int{}, map[uint32]bool{}
			// one dispatch worker, lossless: per publisher the deliveries have no
			// gap between the first message published after Subscribe returned
			// and the last message that did arrive (whatever the subscriber did
			// afterwards) - checked below, after the loop
			defer func(si int, s *subRec) {
				if viol != "" {
					return
				}
				for p := range pubs {
					pid := uint32(p + 1)
					if !hasIdx[pid] {
						continue
					}
					for k := 0; k <= maxIdx[pid] && k < len(pubs[p]); k++ {
						if pr := pubs[p][k]; pr.call > s.subRet && !seen[pr.id] {
							note("message-lost", fmt.Sprintf("subscriber %d (%s) received %s of publisher %d but not the earlier %s, which was published after its Subscribe had returned (one dispatch worker, lossless configuration)",
								si, s.Kind, fmtIDs([]uint32{pubs[p][maxIdx[pid]].id}), pid, fmtIDs([]uint32{pr.id})))
							return
						}
					}
				}
			}(si, s)
			for _, v := range s.snapshot() {
				if !pubset[v] {
					note("invented-message", fmt.Sprintf("subscriber %d (%s) received %s, which was never published", si, s.Kind, fmtIDs([]uint32{v})))
					return
				}
				if seen[v] {
					note("duplicate-delivery", fmt.Sprintf("subscriber %d (%s) received %s twice", si, s.Kind, fmtIDs([]uint32{v})))
					return
				}
				seen[v] = true
				if cfg.Workers <= 1 && cfg.lossless() {
					if k := pubOrder[v]; k > maxIdx[v>>16] || !hasIdx[v>>16] {
						maxIdx[v>>16], hasIdx[v>>16] = k, true
					}
				}
				if cfg.Workers <= 1 && cfg.Backend != "lifo" {
					p := v >> 16
					if prev, ok := lastSeq[p]; ok && pubOrder[v] < prev {
						note("publisher-order", fmt.Sprintf("subscriber %d (%s) received %s after a later message of the same publisher", si, s.Kind, fmtIDs([]uint32{v})))
						return
					}
					lastSeq[p] = pubOrder[v]
				}
			}
		}
		// one common order with a single dispatch worker
		if cfg.Workers <= 1 && cfg.Backend != "lifo" && len(all) >= 2 {
			w := all[0].snapshot()
			pos := map[uint32]int{}
			for k, v := range w {
				pos[v] = k
			}
			for si, s := range all[1:] {
				lastPos := -1
				var lastV uint32
				for _, v := range s.snapshot() {
					p, ok := pos[v]
					if !ok {
						continue
					}
					if p < lastPos {
						note("common-order", fmt.Sprintf("subscriber %d saw %s before %s, subscriber 0 saw them the other way round", si+1, fmtIDs([]uint32{lastV}), fmtIDs([]uint32{v})))
						return
					}
					lastPos, lastV = p, v
				}
			}
		}
		inter := 0
		if len(all) > 0 {
			w := all[0].snapshot()
			for k := 1; k < len(w); k++ {
				if w[k]>>16 != w[k-1]>>16 {
					inter++
				}
			}
		}
		if len(all) >= 2 && npub >= 2 && inter >= 2 {
			r.Distinct(fmt.Sprintf("%s|par=%v|w=%d|buf=%d|d=%s|pubs=%d|subs=%d/%d/%d|p=%d", cfg.Backend, cfg.Parallel, cfg.Workers, cfg.Buffer, cfg.Delay, npub, nstatic, nlate, nleave, procs))
		}
		var deliv int64
		for _, s := range all {
			deliv += int64(len(s.snapshot()))
		}
		r.Count("messages_published", total)
		r.Count("deliveries_checked", deliv)
		if cfg.lossless() {
			r.Count("lossless_runs", 1)
		}
	})
	if inconclusive != "" {
		if !cfg.quiescable() {
			r.Count("runs_skipped(non-quiescable config under load)", 1)
			return
		}
		r.Inconclusive("C08: " + inconclusive)
		return
	}
	if viol != "" {
		r.Violation("C08/"+cfg.Backend+"/"+violKind, idx, desc, viol, nil)
		return
	}
	if r.WantSample() && npub > 1 {
		r.Sample(desc)
	}
}

func fmtIDs(ids []uint32) string {
	var s []string
	for _, v := range ids {
		s = append(s, fmt.Sprintf("p%d#%d", v>>16, v&0xffff))
	}
	return strings.Join(s, ",")
}

// brokerProcs: idle dispatchers of a Deque-backed broker with several
// workers wake each other in a tight loop; with GOMAXPROCS=1 that loop
// starves every other goroutine (including the monitor) between
// preemption ticks, so such configurations get at least 4 processors.
func brokerProcs(cfg brokerCfg, procs int) int {
	if !cfg.quiescable() && procs < 4 {
		return 4
	}
	return procs
}
