package mon

import (
	"context"
	"fmt"
	"math/rand/v2"
	"strings"
	"sync"
	"sync/atomic"
	"time"

	"verif/kit"
)

// C09 — the broker makes progress while subscribers read, and shuts
// down cleanly. Deadlock-at-quiescence monitor around the broker
// harness of c08.go (counting distributor: accepted / popped).

func init() { register("C09", runC09) }

func runC09(r *kit.Run) {
	n := int64(r.Scale(360, 300000))
	for i := int64(0); i < n && !r.Stopped(); i++ {
		if !r.Mine(i) {
			continue
		}
		switch i % 3 {
		case 0:
			c09Progress(r, i, r.Rng("progress", i))
		case 1:
			c09Shutdown(r, i, r.Rng("shutdown", i))
		default:
			c09Stats(r, i, r.Rng("stats", i))
		}
	}
	nh := int64(r.Scale(80, 9000))
	for i := int64(0); i < nh && !r.Stopped(); i++ {
		if !r.Mine(i) {
			continue
		}
		c09Hook(r, i, r.Rng("hook", i))
	}
	nt := int64(r.Scale(84, 3000))
	for i := int64(0); i < nt && !r.Stopped(); i++ {
		if !r.Mine(i) {
			continue
		}
		if i%3 == 2 {
			c09Fill(r, i, r.Rng("fill", i))
		} else {
			c09Trickle(r, i, r.Rng("trickle", i))
		}
	}
}

var trickleSink atomic.Int64

// c09Trickle: one broker built by the library's constructor, one reading
// subscriber, thousands of tiny bursts (1-2 messages), each awaited before
// the next: a message that stays behind until "the next publish" is stuck
// here, because the next publish only comes after it was delivered.
func c09Trickle(r *kit.Run, idx int64, rng *rand.Rand) {
	cfg := brokerCfg{Backend: []string{"queue-unlimited", "queue-unlimited", "queue-bounded", "queue-unlimited", "deque-unlimited", "channel", "deque-cap"}[rng.IntN(7)], Direct: true, Delay: "none",
		Workers: []int{0, 1, 1, 2}[rng.IntN(4)], Parallel: rng.IntN(2) == 0, Cap: 8 + rng.IntN(4)}
	if strings.HasPrefix(cfg.Backend, "deque") && cfg.Workers > 1 {
		cfg.Workers = 1 // DESIGN 3.3
	}
	procs := []int{2, 4, 16}[rng.IntN(3)]
	rounds := 6000
	desc := map[string]any{"mode": "trickle", "config": cfg, "rounds_of_1_or_2_messages": rounds, "gomaxprocs": procs}
	r.EvalN(int64(rounds))
	r.Current(idx, fmt.Sprintf("C09 %+v", desc))
	viol, inconclusive := "", ""
	sent := 0
	kit.WithProcs(procs, func() {
		h := newBrokerHarness(cfg)
		var got atomic.Int64
		ch := h.b.Subscribe(h.ctx)
		stop := make(chan struct{})
		go func() {
			for {
				select {
				case <-stop:
					return
				case <-ch:
					got.Add(1)
				}
			}
		}()
		defer func() { close(stop); h.b.Stop(); h.cancel() }()
		if !waitSubscribed(h, 1) {
			inconclusive = "subscription was not registered"
			return
		}
		for k := 0; k < rounds; k++ {
			n := 1 + k%3
			for m := 0; m < n; m++ {
				if m > 0 {
					// the follow-up lands anywhere between "the worker is still
					// dispatching the previous one" and "it has parked again"
					for spin := rng.IntN(400); spin > 0; spin-- {
						trickleSink.Add(1)
					}
				}
				sent++
				h.b.Publish(h.ctx, uint32(sent))
			}
			want := int64(sent)
			if met, q, cs := kit.Await(5*time.Second, c08Watchdog, func() bool { return got.Load() >= want }); !met {
				if q {
					viol = fmt.Sprintf("round %d: %d messages were published (every Publish returned) and the subscriber keeps receiving, yet only %d arrived; depth %d; at quiescence: %v", k, sent, got.Load(), h.depth(), clipStrs(cs.Describe(), 8))
				} else {
					inconclusive = "deliveries incomplete, not quiescent"
				}
				return
			}
		}
	})
	switch {
	case viol != "":
		r.Violation("C09/"+cfg.Backend+"/stalled", idx, desc, viol, nil)
	case inconclusive != "":
		r.Inconclusive("C09 trickle: " + inconclusive)
	default:
		r.Count("trickle_rounds", int64(rounds))
		r.Distinct(fmt.Sprintf("trickle|%s|w=%d|par=%v|p=%d", cfg.Backend, cfg.Workers, cfg.Parallel, procs))
	}
}

// c09Fill: many short-lived brokers, alternately (a) with a buffered
// subscription that nobody drains and several dispatch workers racing for
// its last free slots, (b) with a large pool of idle workers parked on a
// Queue; then Stop / cancel: Wait returns and nothing of the broker is left.
func c09Fill(r *kit.Run, idx int64, rng *rand.Rand) {
	brokers := 120
	procs := []int{4, 16}[rng.IntN(2)]
	how := []string{"Stop", "cancel-parent"}[rng.IntN(2)]
	desc := map[string]any{"mode": "fill-buffered-subscription", "brokers": brokers, "how": how, "gomaxprocs": procs}
	r.EvalN(int64(brokers))
	r.Current(idx, fmt.Sprintf("C09 %+v", desc))
	viol, violKind, inconclusive := "", "", ""
	var last brokerCfg
	kit.WithProcs(procs, func() {
		for k := 0; k < brokers && viol == "" && inconclusive == ""; k++ {
			cfg := brokerCfg{Backend: []string{"channel", "queue-unlimited", "queue-bounded"}[rng.IntN(3)], Direct: rng.IntN(2) == 0, Delay: "none",
				Buffer: []int{1, 2, 3, 8}[rng.IntN(4)], Workers: []int{2, 4, 8}[rng.IntN(3)], Parallel: true, Cap: 64}
			idlePool := k%2 == 1
			if idlePool {
				// the other flavour: a large pool of idle dispatch workers, all
				// parked on the Queue's condition variable when the stop arrives
				cfg = brokerCfg{Backend: []string{"queue-unlimited", "queue-bounded"}[rng.IntN(2)], Direct: rng.IntN(2) == 0, Delay: "none",
					Workers: []int{16, 32, 96}[rng.IntN(3)], Parallel: rng.IntN(2) == 0, Cap: 8}
			}
			last = cfg
			h := newBrokerHarness(cfg)
			nsubs := 1
			if !idlePool {
				nsubs = 2 + rng.IntN(5) // every undrained subscription has its own last free slot
			}
			for q := 0; q < nsubs; q++ {
				_ = h.b.Subscribe(h.ctx) // nobody reads it
			}
			if !waitSubscribed(h, nsubs) {
				inconclusive = "subscription was not registered"
				h.cancel()
				return
			}
			pctx, pcancel := context.WithCancel(h.ctx)
			var pwg sync.WaitGroup
			for m := 0; m < cfg.Buffer+cfg.Workers+2+rng.IntN(4) && !idlePool; m++ {
				pwg.Add(1)
				go func(m int) { defer pwg.Done(); h.b.Publish(pctx, uint32(m+1)) }(m)
			}
			kit.Yields(20 + rng.IntN(200))
			if how == "Stop" {
				h.b.Stop()
			} else {
				h.cancel()
			}
			waitRet := make(chan struct{})
			go func() { h.b.Wait(context.Background()); close(waitRet) }()
			met, q, cs := kit.Await(5*time.Second, c08Watchdog, func() bool { return isClosed(waitRet) })
			pcancel()
			h.cancel()
			switch {
			case !met && q:
				violKind, viol = "shutdown-hangs", fmt.Sprintf("broker %d (%+v): after %s Wait() does not return; at quiescence: %v", k, cfg, how, clipStrs(cs.Describe(), 8))
			case !met:
				inconclusive = "Wait did not return, not quiescent"
			}
			pwg.Wait()
		}
		if viol != "" || inconclusive != "" {
			return
		}
		cs, q := kit.Quiesce(c08Watchdog)
		if !q {
			inconclusive = "not quiescent after the brokers were stopped"
		} else if left := brokerGoroutines(cs); len(left) > 0 {
			violKind, viol = "goroutine-leak", fmt.Sprintf("after %d stopped brokers, broker goroutines are still alive at quiescence: %v; %v", brokers, left, clipStrs(cs.Describe(), 8))
		}
	})
	switch {
	case viol != "":
		desc["config"] = last
		r.Violation("C09/"+last.Backend+"/"+violKind, idx, desc, viol, nil)
	case inconclusive != "":
		r.Inconclusive("C09 fill: " + inconclusive)
	default:
		r.Count("buffered_subscription_brokers_stopped", int64(brokers))
		r.Distinct(fmt.Sprintf("fill|%s|p=%d", how, procs))
	}
}

func brokerGoroutines(c kit.Census) []string {
	var out []string
	for _, g := range c.All {
		if strings.Contains(g.Stack, "pubsub.(*Broker[") {
			out = append(out, fmt.Sprintf("g%s [%s]", g.ID, g.State))
		}
	}
	return out
}

// waitSubscribed waits until the event loop has registered n subscriptions
// (with BufferSize > 0 Subscribe returns before it has).
func waitSubscribed(h *brokerHarness, n int) bool {
	return kit.WaitUntil(c08Watchdog/3, func() bool { return h.b.Stats(h.ctx).Subscriptions >= n })
}

// c09Progress: bursts of any size are accepted and dispatched while
// every subscriber keeps reading, for every back-end.
func c09Progress(r *kit.Run, idx int64, rng *rand.Rand) {
	cfg := drawBrokerCfg(rng, idx/3)
	if cfg.Backend == "lifo" || cfg.Backend == "queue-bounded" {
		cfg.Direct = false // a shedding back-end (evicting deque, bounded queue whose Add refuses) needs the counting wrapper to know what was accepted
	}
	procs := brokerProcs(cfg, kit.ProcsFor(idx/18))
	burst := []int{1, 2, 10, 100}[rng.IntN(4)]
	bursts := 1 + rng.IntN(4)
	nsub := 1 + rng.IntN(3)
	npub := 1 + rng.IntN(3)
	desc := map[string]any{"mode": "progress", "config": cfg, "burst": burst, "bursts": bursts, "subscribers": nsub, "publishers": npub, "gomaxprocs": procs}
	r.Eval()
	r.Current(idx, fmt.Sprintf("C09 %+v", desc))
	viol, violKind, inconclusive := "", "", ""
	kit.WithProcs(procs, func() {
		h := newBrokerHarness(cfg)
		var subs []*subRec
		for k := 0; k < nsub; k++ {
			s := &subRec{Kind: "static", stop: make(chan struct{}), done: make(chan struct{}), speed: []kit.Speed{kit.Fast, kit.Yield1, kit.Spin}[rng.IntN(3)]}
			s.ch = h.b.Subscribe(h.ctx)
			go s.run()
			subs = append(subs, s)
		}
		cleanup := func() {
			for _, s := range subs {
				close(s.stop)
				<-s.done
			}
			h.b.Stop()
			h.b.Wait(context.Background())
			h.cancel()
		}
		if !waitSubscribed(h, nsub) {
			inconclusive = "subscriptions were not registered"
			cleanup()
			return
		}
		var pwg sync.WaitGroup
		for p := 0; p < npub; p++ {
			pwg.Add(1)
			go func(p int) {
				defer pwg.Done()
				for b := 0; b < bursts; b++ {
					for m := 0; m < burst; m++ {
						h.b.Publish(h.ctx, uint32(p+1)<<16|uint32(b*burst+m+1))
					}
					kit.Yields(10)
				}
			}(p)
		}
		pd := make(chan struct{})
		go func() { pwg.Wait(); close(pd) }()
		published := func() bool {
			select {
			case <-pd:
				return true
			default:
				return false
			}
		}
		settled := func() bool {
			if !published() || h.depth() != 0 {
				return false
			}
			if cfg.Backend != "lifo" && h.accepted.Load() != h.popped.Load() {
				return false
			}
			pop := int(h.popped.Load())
			if cfg.Direct {
				// no counting wrapper: these back-ends do not shed, every
				// message whose Publish returned is to be dispatched
				pop = npub * bursts * burst
			}
			for _, s := range subs {
				if len(s.snapshot()) != pop {
					return false
				}
			}
			return true
		}
		if !kit.WaitUntil(c08Watchdog/3, settled) {
			if !cfg.quiescable() {
				inconclusive = "not settled and this configuration never becomes quiescent"
			} else if cs, q := kit.Quiesce(c08Watchdog); !q {
				inconclusive = "not settled, not quiescent"
			} else if !settled() {
				var per []int
				for _, s := range subs {
					per = append(per, len(s.snapshot()))
				}
				violKind = "stalled"
				viol = fmt.Sprintf("the broker context is live and every subscriber keeps receiving, yet at quiescence: publishers returned=%v, accepted=%d, popped=%d, buffer depth=%d, deliveries per subscriber=%v; %v",
					published(), h.accepted.Load(), h.popped.Load(), h.depth(), per, cs.Describe())
			}
		}
		if !published() {
			h.cancel()
			<-pd
		}
		cleanup()
		if viol == "" && inconclusive == "" {
			r.Count("messages_dispatched", h.popped.Load())
			if r.WantSample() {
				r.Sample(desc)
			}
			r.Distinct(fmt.Sprintf("progress|%s|par=%v|w=%d|buf=%d|burst=%d|subs=%d|p=%d", cfg.Backend, cfg.Parallel, cfg.Workers, cfg.Buffer, burst, nsub, procs))
		}
	})
	c09Verdict(r, idx, cfg, desc, violKind, viol, inconclusive)
}

func c09Verdict(r *kit.Run, idx int64, cfg brokerCfg, desc any, kind, viol, inconclusive string) {
	switch {
	case viol != "":
		r.Violation("C09/"+cfg.Backend+"/"+kind, idx, desc, viol, nil)
	case inconclusive != "" && !cfg.quiescable():
		r.Count("runs_skipped(non-quiescable config)", 1)
	case inconclusive != "":
		r.Inconclusive("C09: " + inconclusive)
	}
}

// c09Shutdown: after Stop or cancellation Wait returns, every broker
// goroutine exits, and API calls return once their context is cancelled.
func c09Shutdown(r *kit.Run, idx int64, rng *rand.Rand) {
	cfg := drawBrokerCfg(rng, idx/3)
	procs := brokerProcs(cfg, kit.ProcsFor(idx/18))
	point := []string{"idle", "mid-dispatch(non-reading subscriber)", "mid-publish", "backlog", "filling a buffered subscription with several workers"}[rng.IntN(5)]
	if point[0] == 'f' {
		// several dispatch workers race for the last free slots of a
		// subscription buffer that nobody drains (Deque back-ends excluded:
		// their idle workers spin, DESIGN 3.3)
		cfg.Backend = []string{"channel", "queue-unlimited", "queue-bounded"}[rng.IntN(3)]
		cfg.Buffer = []int{1, 2, 3, 8}[rng.IntN(4)]
		cfg.Workers = []int{2, 4, 8}[rng.IntN(3)]
		cfg.Parallel = true
		cfg.Cap = 64
		procs = brokerProcs(cfg, []int{4, 16}[rng.IntN(2)])
	}
	how := []string{"Stop", "cancel-parent"}[rng.IntN(2)]
	waitFirst := rng.IntN(2) == 0
	desc := map[string]any{"mode": "shutdown", "config": cfg, "stop_point": point, "how": how, "wait_started_before_stop": waitFirst, "gomaxprocs": procs}
	r.Eval()
	r.Current(idx, fmt.Sprintf("C09 %+v", desc))
	viol, violKind, inconclusive := "", "", ""
	kit.WithProcs(procs, func() {
		h := newBrokerHarness(cfg)
		var reader *subRec
		var idleCh chan uint32
		var pubDone []chan struct{}
		switch point {
		case "idle":
			reader = &subRec{stop: make(chan struct{}), done: make(chan struct{})}
			reader.ch = h.b.Subscribe(h.ctx)
			go reader.run()
			waitSubscribed(h, 1)
		case "mid-dispatch(non-reading subscriber)", "backlog":
			idleCh = h.b.Subscribe(h.ctx) // nobody reads it
			waitSubscribed(h, 1)
			n := 1
			if point == "backlog" {
				n = 3 + rng.IntN(8)
			}
			for k := 0; k < n; k++ {
				d := make(chan struct{})
				pubDone = append(pubDone, d)
				go func(k int) { h.b.Publish(h.ctx, uint32(k+1)); close(d) }(k)
			}
		case "filling a buffered subscription with several workers":
			idleCh = h.b.Subscribe(h.ctx) // nobody reads it
			waitSubscribed(h, 1)
			for k := 0; k < cfg.Buffer+cfg.Workers+2+rng.IntN(4); k++ {
				d := make(chan struct{})
				pubDone = append(pubDone, d)
				go func(k int) { h.b.Publish(h.ctx, uint32(k+1)); close(d) }(k)
			}
		case "mid-publish":
			idleCh = h.b.Subscribe(h.ctx)
			waitSubscribed(h, 1)
			for k := 0; k < 4+cfg.Cap; k++ {
				d := make(chan struct{})
				pubDone = append(pubDone, d)
				go func(k int) { h.b.Publish(h.ctx, uint32(k+1)); close(d) }(k)
			}
		}
		_ = idleCh
		// let the broker reach the stop point
		kit.Yields(200)
		waitRet := make(chan struct{})
		startWait := func() { go func() { h.b.Wait(context.Background()); close(waitRet) }() }
		if waitFirst {
			startWait()
			kit.Yields(50)
		}
		if how == "Stop" {
			sd := make(chan struct{})
			go func() { h.b.Stop(); close(sd) }()
			if !kit.WaitUntil(c08Watchdog/3, func() bool {
				select {
				case <-sd:
					return true
				default:
					return false
				}
			}) {
				if cs, q := kit.Quiesce(c08Watchdog); isClosed(sd) {
					// returned late: not a verdict
				} else if q {
					violKind, viol = "stop-blocks", fmt.Sprintf("Stop() does not return; at quiescence: %v", cs.Describe())
				} else {
					inconclusive = "Stop did not return, not quiescent"
				}
				h.cancel()
				return
			}
		} else {
			h.cancel()
		}
		if !waitFirst {
			startWait()
		}
		isDone := func(ch chan struct{}) bool {
			select {
			case <-ch:
				return true
			default:
				return false
			}
		}
		all := func() bool {
			if !isDone(waitRet) {
				return false
			}
			for _, d := range pubDone {
				if !isDone(d) {
					return false
				}
			}
			return true
		}
		// Wait must return after the stop; the pending Publish calls only
		// once their own context ends as well
		if kit.WaitUntil(c08Watchdog/3, func() bool { return isDone(waitRet) }) {
			h.cancel()
		}
		released := kit.WaitUntil(c08Watchdog/3, all)
		cs, q := kit.Quiesce(c08Watchdog)
		switch {
		case !released && q && !all():
			what := "Wait() does not return"
			if isDone(waitRet) {
				what = "a Publish whose context ended is still blocked"
			}
			violKind, viol = "shutdown-hangs", fmt.Sprintf("after %s at stop point %q: %s; at quiescence: %v", how, point, what, cs.Describe())
		case !q:
			inconclusive = "not quiescent after shutdown"
		default:
			if left := brokerGoroutines(cs); len(left) > 0 {
				violKind, viol = "goroutine-leak", fmt.Sprintf("after %s and Wait, broker goroutines are still alive at quiescence: %v; %v", how, left, cs.Describe())
			}
		}
		// API calls return promptly once their own context is cancelled
		if viol == "" && inconclusive == "" {
			cctx, ccancel := context.WithCancel(context.Background())
			calls := map[string]func(){
				"Publish":     func() { h.b.Publish(cctx, 9999) },
				"Subscribe":   func() { _ = h.b.Subscribe(cctx) },
				"Unsubscribe": func() { h.b.Unsubscribe(cctx, make(chan uint32)) },
				"Stats":       func() { _ = h.b.Stats(cctx) },
			}
			rets := map[string]chan struct{}{}
			for name, fn := range calls {
				d := make(chan struct{})
				rets[name] = d
				go func(fn func()) { fn(); close(d) }(fn)
			}
			kit.Yields(100)
			ccancel()
			ok := kit.WaitUntil(c08Watchdog/3, func() bool {
				for _, d := range rets {
					if !isDone(d) {
						return false
					}
				}
				return true
			})
			if !ok {
				if cs, q := kit.Quiesce(c08Watchdog); q {
					var stuck []string
					for name, d := range rets {
						if !isDone(d) {
							stuck = append(stuck, name)
						}
					}
					if len(stuck) > 0 {
						violKind, viol = "call-ignores-cancel", fmt.Sprintf("on a stopped broker %v did not return after their context was cancelled; %v", stuck, cs.Describe())
					}
				} else {
					inconclusive = "API calls after shutdown not returned, not quiescent"
				}
			}
		}
		if reader != nil {
			close(reader.stop)
			<-reader.done
		}
		h.cancel()
		if viol == "" && inconclusive == "" {
			r.Distinct(fmt.Sprintf("shutdown|%s|par=%v|w=%d|buf=%d|%s|%s|wf=%v|p=%d", cfg.Backend, cfg.Parallel, cfg.Workers, cfg.Buffer, point, how, waitFirst, procs))
			r.Count("shutdowns_checked", 1)
			if r.WantSample() {
				r.Sample(desc)
			}
		}
	})
	c09Verdict(r, idx, cfg, desc, violKind, viol, inconclusive)
}

// flipCtx is a context whose Done channel is open the first k times it
// is asked for and closed afterwards: it cancels itself exactly between
// two selects of the callee (a legal context: cancellation may happen at
// any time).
type flipCtx struct {
	context.Context
	calls  atomic.Int64
	after  int64
	open   chan struct{}
	closed chan struct{}
}

func newFlipCtx(after int64) *flipCtx {
	c := &flipCtx{Context: context.Background(), after: after, open: make(chan struct{}), closed: make(chan struct{})}
	close(c.closed)
	return c
}
func (c *flipCtx) Done() <-chan struct{} {
	if c.calls.Add(1) > c.after {
		return c.closed
	}
	return c.open
}
func (c *flipCtx) Err() error {
	if c.calls.Load() > c.after {
		return context.Canceled
	}
	return nil
}

// c09Stats: Stats calls whose context ends between the request and the
// reply must not wedge the event loop.
func c09Stats(r *kit.Run, idx int64, rng *rand.Rand) {
	cfg := drawBrokerCfg(rng, idx/3)
	cfg.Buffer = 0
	procs := brokerProcs(cfg, kit.ProcsFor(idx/18))
	rounds := 20 + rng.IntN(60)
	desc := map[string]any{"mode": "stats-cancel", "config": cfg, "rounds": rounds, "gomaxprocs": procs}
	r.Eval()
	r.Current(idx, fmt.Sprintf("C09 %+v", desc))
	viol, violKind, inconclusive := "", "", ""
	kit.WithProcs(procs, func() {
		h := newBrokerHarness(cfg)
		s := &subRec{stop: make(chan struct{}), done: make(chan struct{})}
		s.ch = h.b.Subscribe(h.ctx)
		go s.run()
		finish := func() {
			close(s.stop)
			<-s.done
			h.cancel()
		}
		var wg sync.WaitGroup
		for k := 0; k < rounds; k++ {
			wg.Add(1)
			go func(k int) {
				defer wg.Done()
				if k%2 == 0 {
					// the context ends right after the request was handed over
					_ = h.b.Stats(newFlipCtx(1))
				} else {
					ctx, cancel := context.WithCancel(context.Background())
					go func() { kit.Yields(k % 7); cancel() }()
					_ = h.b.Stats(ctx)
					cancel()
				}
			}(k)
		}
		sd := make(chan struct{})
		go func() { wg.Wait(); close(sd) }()
		isDone := func(ch chan struct{}) bool {
			select {
			case <-ch:
				return true
			default:
				return false
			}
		}
		if !kit.WaitUntil(c08Watchdog/3, func() bool { return isDone(sd) }) {
			if cs, q := kit.Quiesce(c08Watchdog); q && cfg.quiescable() && !isDone(sd) {
				violKind = "event-loop-wedged"
				viol = fmt.Sprintf("Stats calls are blocked handing their request to the event loop although the broker context is live (an earlier Stats call whose context ended wedged it); at quiescence: %v", cs.Describe())
			} else {
				inconclusive = "Stats callers did not return"
			}
			h.cancel()
			close(s.stop)
			<-s.done
			return
		}
		// health: a publish with a live context goes through and is delivered
		pd := make(chan struct{})
		go func() { h.b.Publish(h.ctx, 424242); close(pd) }()
		healthy := func() bool {
			if !isDone(pd) {
				return false
			}
			for _, v := range s.snapshot() {
				if v == 424242 {
					return true
				}
			}
			return false
		}
		if !kit.WaitUntil(c08Watchdog/3, healthy) {
			if !cfg.quiescable() {
				inconclusive = "health probe incomplete, configuration never quiescent"
			} else if cs, q := kit.Quiesce(c08Watchdog); !q {
				inconclusive = "health probe incomplete, not quiescent"
			} else if !healthy() {
				violKind = "event-loop-wedged"
				viol = fmt.Sprintf("after %d Stats calls whose context ended between request and reply, a Publish with a live context is not accepted/delivered (publish returned=%v); at quiescence: %v", rounds, isDone(pd), cs.Describe())
			}
		}
		if viol == "" && inconclusive == "" {
			// and the broker still shuts down
			h.b.Stop()
			wd := make(chan struct{})
			go func() { h.b.Wait(context.Background()); close(wd) }()
			if !kit.WaitUntil(c08Watchdog/3, func() bool { return isDone(wd) }) {
				if cs, q := kit.Quiesce(c08Watchdog); isDone(wd) {
					// returned late: not a verdict
				} else if q {
					violKind, viol = "shutdown-hangs", fmt.Sprintf("Wait does not return after Stop following the Stats calls; %v", cs.Describe())
				} else {
					inconclusive = "Wait after Stats not returned, not quiescent"
				}
			}
		}
		finish()
		if viol == "" && inconclusive == "" {
			r.Count("stats_calls_with_ending_context", int64(rounds))
			r.Distinct(fmt.Sprintf("stats|%s|par=%v|w=%d|p=%d", cfg.Backend, cfg.Parallel, cfg.Workers, procs))
		}
	})
	c09Verdict(r, idx, cfg, desc, violKind, viol, inconclusive)
}

// c09Hook: Stop lands exactly inside the idle dispatcher's wait window
// (Queue- and Deque-backed brokers park there on a condition variable).
func c09Hook(r *kit.Run, idx int64, rng *rand.Rand) {
	backend := []string{"queue-unlimited", "deque-unlimited", "deque-cap", "lifo"}[rng.IntN(4)]
	cfg := brokerCfg{Backend: backend, Workers: 1, Cap: 2 + rng.IntN(4), Parallel: rng.IntN(2) == 0, Delay: "none"}
	how := []string{"Stop", "cancel-parent"}[rng.IntN(2)]
	desc := map[string]any{"mode": "stop-in-wait-window", "config": cfg, "how": how}
	r.Eval()
	var hits atomic.Int64
	var h *brokerHarness
	viol, inconclusive := "", ""
	kit.WithHook(func(p string) {
		if p != "pubsub.wait.before-cond-wait" || hits.Add(1) != 1 {
			return
		}
		if how == "Stop" {
			go h.b.Stop()
		} else {
			h.cancel()
		}
		for k := 0; k < 2000; k++ {
			kit.Yields(5)
			st := "gone"
			for _, g := range kit.TakeCensus().All {
				if strings.Contains(g.Stack, "/pubsub.") && strings.Contains(g.Stack, ".func1") && !strings.Contains(g.Stack, "verif/mon") && !strings.Contains(g.Stack, "Broker[") {
					st = g.State
				}
			}
			if h.ctx.Err() != nil && (st == "gone" || strings.HasPrefix(st, "sync.Mutex.Lock") || strings.HasPrefix(st, "semacquire")) {
				break
			}
		}
	}, func() {
		h = newBrokerHarness(cfg)
		wd := make(chan struct{})
		go func() { h.b.Wait(context.Background()); close(wd) }()
		isDone := func() bool {
			select {
			case <-wd:
				return true
			default:
				return false
			}
		}
		if kit.WaitUntil(c08Watchdog/3, isDone) {
			if hits.Load() > 0 {
				r.Count("hook_shutdowns_ok", 1)
				r.Distinct(fmt.Sprintf("hook|%s|%s|par=%v", backend, how, cfg.Parallel))
			}
			h.cancel()
			return
		}
		if hits.Load() == 0 {
			inconclusive = "the dispatcher never reached the wait window"
			h.cancel()
			return
		}
		if cs, q := kit.Quiesce(c08Watchdog); q && !isDone() {
			viol = fmt.Sprintf("%s landed between the idle dispatcher's predicate check and cond.Wait; at quiescence Wait() has not returned: %v", how, cs.Describe())
		} else if !q {
			inconclusive = "not released, not quiescent"
		}
		h.cancel()
	})
	if viol != "" {
		r.Violation("C09/"+backend+"/shutdown-lost-wakeup", idx, desc, viol, nil)
	} else if inconclusive != "" {
		r.Inconclusive("C09 hook: " + inconclusive)
	}
	_ = time.Second
}
