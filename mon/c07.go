package mon

import (
	"context"
	"fmt"
	"math/rand/v2"
	"strings"
	"sync"
	"sync/atomic"
	"time"

	"github.com/tychoish/fun/pubsub"

	"verif/kit"
)

// C07 — blocking queue/deque operations never miss a wake-up.
//
// Deadlock-at-quiescence monitor (DESIGN 3.3): scenarios use only
// cancellable contexts (no timers), so once every goroutine of the
// process is parked nothing can move without a new stimulus; an
// operation that is still parked although its condition holds
// (container non-empty / has room / closed / own context cancelled)
// will never return — decided logically, not by a deadline.

func init() { register("C07", runC07) }

const c07Watchdog = 20 * time.Second

// bop is one blocking operation issued by the scenario.
type bop struct {
	Kind      string
	V         byte
	ctx       context.Context
	cancel    context.CancelFunc
	done      atomic.Bool
	cancelled atomic.Bool
	out       qout
	started   atomic.Bool
	seen      atomic.Int64 // items yielded (iterator kinds)
}

func (b *bop) iterator() bool { return strings.HasPrefix(b.Kind, "iter-") }

func (b *bop) producer() bool {
	switch b.Kind {
	case "blockingadd", "waitpushfront", "waitpushback", "dist-send":
		return true
	}
	return false
}

type c07Sys struct {
	deque bool
	q     *pubsub.Queue[byte]
	d     *pubsub.Deque[byte]
	cfg   qconfig
	s     sut
}

func (y *c07Sys) len() int {
	if y.deque {
		return y.d.Len()
	}
	return y.q.Len()
}

func (y *c07Sys) run(b *bop) {
	b.started.Store(true)
	in := qin{Op: b.Kind, V: b.V}
	switch b.Kind {
	case "iter-next", "iter-fwd", "iter-rev":
		// a non-destructive iterator: read what is there, then park at the end
		var next func(context.Context) (byte, error)
		switch b.Kind {
		case "iter-next":
			next = y.q.Iterator().ReadOne
		case "iter-fwd":
			next = y.d.ProducerBlocking()
		default:
			next = y.d.ProducerReverseBlocking()
		}
		for k := 0; k < 64; k++ {
			if _, err := next(b.ctx); err != nil {
				b.out = qout{Err: errClass(err)}
				break
			}
			b.seen.Add(1)
		}
	case "dist-receive":
		var v byte
		var err error
		if y.deque {
			v, err = y.d.Distributor().Receive(b.ctx)
		} else {
			v, err = y.q.Distributor().Receive(b.ctx)
		}
		b.out = qout{V: v, Ok: err == nil, Err: errClass(err)}
	case "dist-send":
		var err error
		if y.deque {
			err = y.d.Distributor().Send(b.ctx, b.V)
		} else {
			err = y.q.Distributor().Send(b.ctx, b.V)
		}
		b.out = qout{Err: errClass(err)}
	default:
		b.out = y.s.apply(b.ctx, in)
	}
	kit.Stamp()
	b.done.Store(true)
}

func newC07Sys(deque bool, rng *rand.Rand) (*c07Sys, error) {
	y := &c07Sys{deque: deque}
	if deque {
		y.cfg = drawDequeConfig(rng)
		if rng.IntN(5) < 2 {
			// dynamic capacity (soft quota + burst credit) more often than
			// the linearizability checks need it
			if c := drawQueueConfig(rng); c.Kind == limQuota {
				c.Detail = "queueopts " + c.Detail
				y.cfg = c
			}
		}
		d, err := y.cfg.newDeque()
		if err != nil {
			return nil, err
		}
		y.d, y.s = d, dequeSUT(d)
	} else {
		y.cfg = drawQueueConfig(rng)
		q, err := y.cfg.newQueue()
		if err != nil {
			return nil, err
		}
		y.q, y.s = q, queueSUT(q)
	}
	return y, nil
}

// condvar names the condition variable a Deque waiter parks on, so that
// decisive scenarios place at most one waiter per variable (two waiters
// on one variable signal each other for ever and the process never
// becomes quiescent — DESIGN 3.3).
func condvar(kind string) string {
	switch kind {
	case "waitfront", "dist-receive", "iter-fwd":
		return "nfront"
	case "waitback", "iter-rev":
		return "nback"
	case "waitpushfront", "waitpushback", "dist-send":
		return "updates"
	}
	return kind
}

func runC07(r *kit.Run) {
	n := int64(r.Scale(1400, 100000))
	for i := int64(0); i < n && !r.Stopped(); i++ {
		if !r.Mine(i) {
			continue
		}
		c07Scenario(r, i, r.Rng("scn", i), i%2 == 1)
	}
	nh := int64(r.Scale(200, 8000))
	for i := int64(0); i < nh && !r.Stopped(); i++ {
		if !r.Mine(i) {
			continue
		}
		c07Hook(r, i, r.Rng("hook", i), i%2 == 1)
	}
	ne := int64(r.Scale(240, 12000))
	for i := int64(0); i < ne && !r.Stopped(); i++ {
		if !r.Mine(i) {
			continue
		}
		c07Evict(r, i, r.Rng("evict", i))
	}
}

// c07Evict: a full fixed-capacity deque takes force pushes (each evicts
// from the other end) and is then consumed through a blocking call: the
// deque is not empty, so the call returns at once with the item at that
// end. A consumer parked on a non-empty deque is decided at quiescence.
func c07Evict(r *kit.Run, idx int64, rng *rand.Rand) {
	capN := []int{1, 1, 2, 3}[rng.IntN(4)]
	d, err := pubsub.NewDeque[byte](pubsub.DequeOptions{Capacity: capN})
	if err != nil {
		r.Violation("C07/config/valid-options-rejected", idx, nil, err.Error(), nil)
		return
	}
	var model []byte
	var script []string
	var id byte
	for k := 0; k < capN; k++ {
		id++
		_ = d.PushBack(id)
		model = append(model, id)
	}
	nf := 1 + rng.IntN(3)
	for k := 0; k < nf; k++ {
		id++
		if rng.IntN(2) == 0 {
			if e := d.ForcePushBack(id); e != nil {
				r.Violation("C07/Deque.forcepush/refused", idx, map[string]any{"capacity": capN, "script": script}, fmt.Sprintf("ForcePushBack on an open deque returned %v", e), nil)
				return
			}
			model = append(model[1:], id)
			script = append(script, fmt.Sprintf("ForcePushBack(%d)", id))
		} else {
			if e := d.ForcePushFront(id); e != nil {
				r.Violation("C07/Deque.forcepush/refused", idx, map[string]any{"capacity": capN, "script": script}, fmt.Sprintf("ForcePushFront on an open deque returned %v", e), nil)
				return
			}
			model = append([]byte{id}, model[:len(model)-1]...)
			script = append(script, fmt.Sprintf("ForcePushFront(%d)", id))
		}
	}
	kind := []string{"waitfront", "waitback", "dist-receive", "iter-fwd"}[rng.IntN(4)]
	want := model[0]
	if kind == "waitback" {
		want = model[len(model)-1]
	}
	procs := kit.ProcsFor(idx)
	desc := map[string]any{"capacity": capN, "script": script, "consumer": kind, "expected_contents": model, "gomaxprocs": procs}
	r.Eval()
	r.Current(idx, fmt.Sprintf("C07 evict cap=%d %v then %s", capN, script, kind))
	ctx, cancel := context.WithCancel(context.Background())
	defer cancel()
	var got byte
	var gerr error
	done := make(chan struct{})
	kit.WithProcs(procs, func() {
		go func() {
			defer close(done)
			switch kind {
			case "waitfront":
				got, gerr = d.WaitFront(ctx)
			case "waitback":
				got, gerr = d.WaitBack(ctx)
			case "dist-receive":
				got, gerr = d.Distributor().Receive(ctx)
			case "iter-fwd":
				got, gerr = d.ProducerBlocking()(ctx)
			}
		}()
		met, q, cs := kit.Await(c07Watchdog/4, c07Watchdog, func() bool { return isClosed(done) })
		switch {
		case met:
		case q:
			r.Violation("C07/Deque."+kind+"/consumer-parked-with-items", idx, desc, fmt.Sprintf("the deque holds %d item(s) (Len()=%d) after the force pushes, the consumer is still parked at quiescence: %v", len(model), d.Len(), cs.Describe()), nil)
			cancel()
			<-done
			got, gerr = want, nil
		default:
			r.Inconclusive("C07 evict: consumer not returned, not quiescent")
			cancel()
			<-done
			got, gerr = want, nil
		}
	})
	if gerr != nil {
		r.Violation("C07/Deque."+kind+"/error-on-non-empty", idx, desc, fmt.Sprintf("returned %v on a deque holding %v", gerr, model), nil)
		return
	}
	if got != want {
		r.Violation("C07/Deque."+kind+"/wrong-item", idx, desc, fmt.Sprintf("returned %d, the item at that end is %d (contents %v)", got, want, model), nil)
		return
	}
	r.Distinct(fmt.Sprintf("evict|cap=%d|n=%d|%s|p=%d", capN, nf, kind, procs))
	r.Count("evict_scenarios", 1)
}

func c07Scenario(r *kit.Run, idx int64, rng *rand.Rand, deque bool) {
	y, err := newC07Sys(deque, rng)
	if err != nil {
		r.Violation("C07/config/valid-options-rejected", idx, nil, err.Error(), nil)
		return
	}
	procs := kit.ProcsFor(idx / 2)
	var script []string
	var id byte = 1
	nextID := func() byte { id++; return id }
	push := func(front bool) string {
		v := nextID()
		var e error
		if deque {
			if front {
				e = y.d.PushFront(v)
			} else {
				e = y.d.PushBack(v)
			}
		} else {
			e = y.q.Add(v)
		}
		return errClass(e)
	}
	pop := func(front bool) bool {
		if deque {
			if front {
				_, ok := y.d.PopFront()
				return ok
			}
			_, ok := y.d.PopBack()
			return ok
		}
		_, ok := y.q.Remove()
		return ok
	}
	// initial state
	initial := []string{"empty", "empty", "one", "several", "full", "at-quota", "at-quota"}[rng.IntN(7)]
	switch initial {
	case "at-quota":
		// filled exactly to the initial capacity: burst credit is untouched
		c := y.cfg.initial().cap()
		if y.cfg.Kind == limUnlimited {
			c = 2
		}
		for k := 0; k < c; k++ {
			push(false)
		}
	case "one":
		push(false)
	case "several":
		for k := 0; k < 3; k++ {
			if push(false) != "" {
				break
			}
		}
	case "full":
		for k := 0; k < 40; k++ {
			if push(false) != "" {
				break
			}
		}
		if y.cfg.Kind == limUnlimited {
			initial = "several(unlimited)"
		}
	}
	script = append(script, fmt.Sprintf("initial=%s len=%d", initial, y.len()))

	// waiters
	var kinds []string
	if deque {
		kinds = []string{"waitfront", "waitback", "waitpushfront", "waitpushback", "dist-receive", "dist-send", "iter-fwd", "iter-rev"}
	} else {
		kinds = []string{"wait", "blockingadd", "dist-receive", "wait", "blockingadd", "iter-next"}
	}
	// bias towards operations that will actually park in this state
	if y.len() == 0 && rng.IntN(3) > 0 {
		if deque {
			kinds = []string{"waitfront", "waitback", "dist-receive", "iter-fwd", "iter-rev"}
		} else {
			kinds = []string{"wait", "wait", "dist-receive", "iter-next"}
		}
	} else if y.cfg.Kind != limUnlimited && (initial == "full" || initial == "at-quota") && rng.IntN(3) > 0 {
		if deque {
			kinds = []string{"waitpushfront", "waitpushback", "dist-send", "iter-fwd"}
		} else {
			kinds = []string{"blockingadd", "blockingadd", "iter-next"}
		}
	}
	nw := 1 + rng.IntN(4)
	var ops []*bop
	used := map[string]bool{}
	for k := 0; k < nw; k++ {
		kd := kinds[rng.IntN(len(kinds))]
		if deque {
			cv := condvar(kd)
			if used[cv] {
				continue // decisive scenarios: one waiter per condition variable
			}
			used[cv] = true
		}
		b := &bop{Kind: kd}
		if b.producer() {
			b.V = nextID()
		}
		b.ctx, b.cancel = context.WithCancel(context.Background())
		ops = append(ops, b)
	}
	desc := func() map[string]any {
		var ws []string
		for _, b := range ops {
			ws = append(ws, fmt.Sprintf("%s(done=%v cancelled=%v out=%v)", b.Kind, b.done.Load(), b.cancelled.Load(), b.out))
		}
		return map[string]any{"container": map[bool]string{false: "Queue", true: "Deque"}[deque], "config": y.cfg.Detail, "gomaxprocs": procs, "script": script, "blocking_ops": ws, "len_now": y.len()}
	}
	r.Eval()
	r.Current(idx, fmt.Sprintf("C07 %v %s", deque, y.cfg.Detail))
	closed := false
	inconclusive := ""
	kit.WithProcs(procs, func() {
		var wg sync.WaitGroup
		for _, b := range ops {
			wg.Add(1)
			go func(b *bop) { defer wg.Done(); y.run(b) }(b)
		}
		// let them park (or finish, when their condition already holds)
		if _, q := kit.Quiesce(c07Watchdog); !q {
			inconclusive = "not quiescent after the waiters were started"
		}
		parkedBefore := 0
		for _, b := range ops {
			if !b.done.Load() {
				parkedBefore++
			}
		}
		script = append(script, fmt.Sprintf("started %d blocking ops, %d parked", len(ops), parkedBefore))
		// stimulus
		steps := 1 + rng.IntN(5)
		for s := 0; s < steps && inconclusive == ""; s++ {
			choices := []int{0, 1, 2, 3, 4, 5, 5, 6, 7, 7, 8, 9, 9}
			if deque {
				choices = append(choices, 10, 10)
				if y.cfg.Kind == limHard && y.cfg.Hard <= 2 {
					choices = append(choices, 10, 10, 10, 7) // evictions on the smallest deques
				}
			}
			switch c := choices[rng.IntN(len(choices))]; c {
			case 10: // force pushes: on a full deque they evict from the other end
				k := 1 + rng.IntN(3)
				front := rng.IntN(2) == 0
				var res []string
				for j := 0; j < k; j++ {
					v := nextID()
					var e error
					if front {
						e = y.d.ForcePushFront(v)
					} else {
						e = y.d.ForcePushBack(v)
					}
					res = append(res, errClass(e))
				}
				script = append(script, fmt.Sprintf("forcepush x%d front=%v -> %v", k, front, res))
			case 9: // one push (may spend burst credit and raise the quota), then one pop
				front := deque && rng.IntN(2) == 0
				pr := push(front)
				po := pop(!deque || rng.IntN(2) == 0)
				script = append(script, fmt.Sprintf("push -> %q then pop -> %v", pr, po))
			case 0, 1: // burst of pushes back-to-back
				k := 1 + rng.IntN(4)
				front := deque && rng.IntN(2) == 0
				var res []string
				for j := 0; j < k; j++ {
					res = append(res, push(front))
				}
				script = append(script, fmt.Sprintf("push x%d front=%v -> %v", k, front, res))
			case 2, 3:
				k := 1 + rng.IntN(3)
				front := !deque || rng.IntN(2) == 0
				n := 0
				for j := 0; j < k; j++ {
					if pop(front) {
						n++
					}
				}
				script = append(script, fmt.Sprintf("pop x%d front=%v -> %d removed", k, front, n))
			case 4: // pop racing push
				bar := kit.NewBarrier(2)
				var w2 sync.WaitGroup
				var pr string
				var po bool
				w2.Add(2)
				go func() { defer w2.Done(); bar.Wait(); pr = push(false) }()
				go func() { defer w2.Done(); bar.Wait(); po = pop(true) }()
				w2.Wait()
				script = append(script, fmt.Sprintf("push||pop -> %q, removed=%v", pr, po))
			case 5: // cancel one waiter
				if len(ops) > 0 {
					b := ops[rng.IntN(len(ops))]
					b.cancelled.Store(true)
					b.cancel()
					script = append(script, fmt.Sprintf("cancel %s", b.Kind))
				}
			case 6: // close (possibly racing a late waiter)
				if rng.IntN(3) == 0 {
					if deque {
						_ = y.d.Close()
					} else {
						_ = y.q.Close()
					}
					closed = true
					script = append(script, "close")
				}
			case 7: // a call made while its condition may already hold
				kd := kinds[rng.IntN(len(kinds))]
				if deque && used[condvar(kd)] {
					break
				}
				if deque {
					used[condvar(kd)] = true
				}
				b := &bop{Kind: kd}
				if b.producer() {
					b.V = nextID()
				}
				b.ctx, b.cancel = context.WithCancel(context.Background())
				ops = append(ops, b)
				wg.Add(1)
				go func(b *bop) { defer wg.Done(); y.run(b) }(b)
				script = append(script, fmt.Sprintf("start %s (len=%d)", kd, y.len()))
			case 8: // settle before the next step
				if _, q := kit.Quiesce(c07Watchdog); !q {
					inconclusive = "not quiescent between stimulus steps"
				}
				script = append(script, "settle")
			}
			kit.Yields(rng.IntN(3))
		}
		if inconclusive != "" {
			for _, b := range ops {
				b.cancel()
			}
			wg.Wait()
			return
		}
		// verdict at quiescence
		cs, q := kit.Quiesce(c07Watchdog)
		if !q {
			inconclusive = "not quiescent after the stimulus"
			for _, b := range ops {
				b.cancel()
			}
			wg.Wait()
			return
		}
		ln := y.len()
		for _, b := range ops {
			if b.done.Load() {
				continue
			}
			kind, why := "", ""
			switch {
			case b.cancelled.Load():
				kind, why = "cancel-not-honoured", "its context was cancelled"
			case closed:
				kind, why = "close-not-honoured", "the container was closed"
			case b.iterator():
				// parked at the end of the container: released only by a
				// later insertion, Close or cancel (sequence is C20's)
			case !b.producer() && ln > 0:
				kind, why = "consumer-parked-on-non-empty", fmt.Sprintf("the container holds %d item(s)", ln)
			case b.producer():
				// capacity may be dynamic (soft quota): probe with a fresh
				// call of the same kind; if that returns without any other
				// stimulus the condition held for the parked call too
				static := y.cfg.Kind == limHard
				if static && ln < y.cfg.Hard {
					kind, why = "producer-parked-with-room", fmt.Sprintf("len %d < capacity %d", ln, y.cfg.Hard)
					break
				}
				if !static {
					p := &bop{Kind: b.Kind, V: nextID()}
					p.ctx, p.cancel = context.WithCancel(context.Background())
					go y.run(p)
					if kit.WaitUntil(200*time.Millisecond, p.done.Load) && p.out.Err == "" {
						if !b.done.Load() {
							kind, why = "producer-parked-with-room", fmt.Sprintf("a fresh %s issued at quiescence (len %d) completed at once while this one stayed parked", b.Kind, ln)
						}
					} else {
						p.cancel()
						kit.WaitUntil(c07Watchdog, p.done.Load)
					}
				}
			}
			if kind != "" {
				r.Violation("C07/"+map[bool]string{false: "Queue", true: "Deque"}[deque]+"."+b.Kind+"/"+kind, idx, desc(),
					fmt.Sprintf("at quiescence %s is still parked although %s (no operation is in progress, no timer exists: it will never return)", b.Kind, why),
					cs.Describe())
				break
			}
		}
		if parkedBefore > 0 {
			r.Count("ops_observed_parked_before_stimulus", int64(parkedBefore))
			r.Distinct(fmt.Sprintf("%v|%s|init=%s|ops=%s|p=%d", deque, y.cfg.Detail, initial, opKinds(ops), procs))
		}
		// release everything
		for _, b := range ops {
			b.cancel()
		}
		if deque {
			_ = y.d.Close()
		} else {
			_ = y.q.Close()
		}
		wg.Wait()
	})
	if inconclusive != "" {
		r.Inconclusive("C07 scenario: " + inconclusive)
		return
	}
	if r.WantSample() && len(ops) > 1 {
		r.Sample(desc())
	}
}

func opKinds(ops []*bop) string {
	var s []string
	for _, b := range ops {
		s = append(s, b.Kind)
	}
	return strings.Join(s, "+")
}

// c07Hook places a cancel (or the enabling operation) exactly between a
// waiter's predicate check and cond.Wait, using the verif yield point.
func c07Hook(r *kit.Run, idx int64, rng *rand.Rand, deque bool) {
	y, err := newC07Sys(deque, rng)
	if err != nil {
		return
	}
	var kinds []string
	if deque {
		kinds = []string{"waitfront", "waitback", "waitpushfront", "waitpushback"}
	} else {
		kinds = []string{"wait", "blockingadd", "dist-receive"}
	}
	b := &bop{Kind: kinds[rng.IntN(len(kinds))], V: 200}
	b.ctx, b.cancel = context.WithCancel(context.Background())
	if b.producer() {
		if y.cfg.Kind == limUnlimited {
			return // never parks
		}
		for k := 0; k < 40; k++ { // fill up
			var e error
			if deque {
				e = y.d.PushBack(byte(k + 1))
			} else {
				e = y.q.Add(byte(k + 1))
			}
			if e != nil {
				break
			}
		}
	}
	mode := rng.IntN(3) // 0 cancel, 1 enabling op, 2 close
	desc := map[string]any{"container": map[bool]string{false: "Queue", true: "Deque"}[deque], "config": y.cfg.Detail, "op": b.Kind,
		"in_window": []string{"cancel", "enabling operation", "Close"}[mode]}
	var hits atomic.Int64
	var helper atomic.Value
	r.Eval()
	kit.WithHook(func(p string) {
		if p != "pubsub.wait.before-cond-wait" || hits.Add(1) != 1 {
			return
		}
		// inside the wait loop, predicate checked, mutex held
		switch mode {
		case 0:
			b.cancelled.Store(true)
			b.cancel()
			for k := 0; k < 2000; k++ {
				kit.Yields(5)
				st := "gone"
				for _, g := range kit.TakeCensus().All {
					if strings.Contains(g.Stack, "/pubsub.") && strings.Contains(g.Stack, ".func1") && !strings.Contains(g.Stack, "verif/mon") {
						st = g.State
					}
				}
				helper.Store(st)
				if st == "gone" || strings.HasPrefix(st, "sync.Mutex.Lock") || strings.HasPrefix(st, "semacquire") {
					break
				}
			}
		case 1:
			// the enabling operation needs the mutex this goroutine
			// holds: it completes as soon as cond.Wait releases it
			go func() {
				if b.producer() {
					if deque {
						y.d.PopFront()
					} else {
						y.q.Remove()
					}
				} else if deque {
					_ = y.d.PushBack(99)
				} else {
					_ = y.q.Add(99)
				}
			}()
			kit.Yields(100)
		case 2:
			go func() {
				if deque {
					_ = y.d.Close()
				} else {
					_ = y.q.Close()
				}
			}()
			kit.Yields(100)
		}
	}, func() {
		go y.run(b)
		if kit.WaitUntil(c07Watchdog/4, b.done.Load) {
			if hits.Load() == 0 {
				r.Count("hook_not_reached(op returned without parking)", 1)
			} else {
				r.Count("hook_scenarios_released", 1)
				r.Distinct(fmt.Sprintf("hook|%v|%s|m=%d", deque, b.Kind, mode))
			}
			return
		}
		cs, q := kit.Quiesce(c07Watchdog)
		if b.done.Load() {
			// released late (slow machine): not a verdict
			r.Count("hook_scenarios_released", 1)
			return
		}
		if q {
			hs, _ := helper.Load().(string)
			r.Violation("C07/"+map[bool]string{false: "Queue", true: "Deque"}[deque]+"."+b.Kind+"/lost-wakeup-in-window", idx, desc,
				fmt.Sprintf("the %s landed between the predicate check and cond.Wait; at quiescence the operation is still parked (helper goroutine state when the window closed: %q)", desc["in_window"], hs), cs.Describe())
		} else {
			r.Inconclusive("C07 hook scenario: not released and not quiescent")
		}
		b.cancel()
		if deque {
			_ = y.d.Close()
		} else {
			_ = y.q.Close()
		}
		kit.WaitUntil(c07Watchdog, b.done.Load)
	})
}
