package mon

import (
	"context"
	"fmt"
	"math/rand/v2"
	"runtime"
	"sync"
	"sync/atomic"
	"time"

	"github.com/anishathalye/porcupine"
	"github.com/tychoish/fun/pubsub"

	"verif/kit"
)

// C05 / C06 — pubsub.Queue and pubsub.Deque are linearizable bounded
// containers. Many short concurrent histories are recorded at the
// client boundary with unique values and checked with porcupine against
// the sequential models of qmodel.go; plus long single-client scripts
// checked in lock-step (they drive the credit arithmetic deep).

func init() {
	register("C05", func(r *kit.Run) { runLin(r, "C05", false) })
	register("C06", func(r *kit.Run) { runLin(r, "C06", true) })
}

var queueModel = porcupine.Model{
	Init:              func() any { return qstate{} }, // replaced per history
	Step:              queueStep,
	DescribeOperation: func(in, out any) string { return fmt.Sprintf("%v -> %v", in, out) },
}

// sut abstracts the container under test for the history driver.
type sut struct {
	ops   []string // operation vocabulary
	apply func(ctx context.Context, in qin) qout
	step  func(st, in, out any) (bool, any)
}

func queueSUT(q *pubsub.Queue[byte]) sut {
	d := q.Distributor()
	return sut{
		ops:  []string{"add", "add", "add", "blockingadd", "blockingadd", "remove", "remove", "wait", "wait", "len", "send", "receive", "distlen"},
		step: queueStep,
		apply: func(ctx context.Context, in qin) qout {
			switch in.Op {
			case "add":
				return qout{Err: errClass(q.Add(in.V))}
			case "blockingadd":
				return qout{Err: errClass(q.BlockingAdd(ctx, in.V))}
			case "remove":
				v, ok := q.Remove()
				return qout{V: v, Ok: ok}
			case "wait":
				v, err := q.Wait(ctx)
				if err != nil {
					return qout{Err: errClass(err)}
				}
				return qout{V: v, Ok: true}
			case "len":
				return qout{N: q.Len()}
			case "close":
				return qout{Err: errClass(q.Close())}
			case "send":
				return qout{Err: errClass(d.Send(ctx, in.V))}
			case "receive":
				v, err := d.Receive(ctx)
				if err != nil {
					return qout{Err: errClass(err)}
				}
				return qout{V: v, Ok: true}
			case "distlen":
				return qout{N: d.Len()}
			}
			panic("queue op " + in.Op)
		},
	}
}

func dequeSUT(q *pubsub.Deque[byte]) sut {
	return sut{
		ops: []string{"pushfront", "pushback", "pushback", "popfront", "popback", "forcepushfront", "forcepushback",
			"waitfront", "waitback", "waitpushfront", "waitpushback", "len"},
		step: dequeStep,
		apply: func(ctx context.Context, in qin) qout {
			switch in.Op {
			case "pushfront":
				return qout{Err: errClass(q.PushFront(in.V))}
			case "pushback":
				return qout{Err: errClass(q.PushBack(in.V))}
			case "forcepushfront":
				return qout{Err: errClass(q.ForcePushFront(in.V))}
			case "forcepushback":
				return qout{Err: errClass(q.ForcePushBack(in.V))}
			case "waitpushfront":
				return qout{Err: errClass(q.WaitPushFront(ctx, in.V))}
			case "waitpushback":
				return qout{Err: errClass(q.WaitPushBack(ctx, in.V))}
			case "popfront":
				v, ok := q.PopFront()
				return qout{V: v, Ok: ok}
			case "popback":
				v, ok := q.PopBack()
				return qout{V: v, Ok: ok}
			case "waitfront":
				v, err := q.WaitFront(ctx)
				if err != nil {
					return qout{Err: errClass(err)}
				}
				return qout{V: v, Ok: true}
			case "waitback":
				v, err := q.WaitBack(ctx)
				if err != nil {
					return qout{Err: errClass(err)}
				}
				return qout{V: v, Ok: true}
			case "len":
				return qout{N: q.Len()}
			case "close":
				return qout{Err: errClass(q.Close())}
			}
			panic("deque op " + in.Op)
		},
	}
}

func isBlockingOp(op string) bool {
	switch op {
	case "blockingadd", "wait", "receive", "waitfront", "waitback", "waitpushfront", "waitpushback":
		return true
	}
	return false
}

func carriesValue(op string) bool {
	switch op {
	case "add", "blockingadd", "send", "pushfront", "pushback", "forcepushfront", "forcepushback", "waitpushfront", "waitpushback":
		return true
	}
	return false
}

func runLin(r *kit.Run, prop string, deque bool) {
	nh := int64(r.Scale(3000, 1500000))
	if deque {
		nh = int64(r.Scale(3000, 250000)) // Deque histories are ~20x slower (spinning waiters, DESIGN 3.3)
	}
	if r.Build != "plain" {
		nh /= 10
	}
	for i := int64(0); i < nh && !r.Stopped(); i++ {
		if !r.Mine(i) {
			continue
		}
		linHistory(r, prop, deque, i, r.Rng("hist", i))
	}
	ns := int64(r.Scale(400, 150000))
	for i := int64(0); i < ns && !r.Stopped(); i++ {
		if !r.Mine(i) {
			continue
		}
		linScript(r, prop, deque, i, r.Rng("script", i))
	}
}

func makeSUT(deque bool, rng *rand.Rand) (sut, qconfig, error) {
	if deque {
		cfg := drawDequeConfig(rng)
		d, err := cfg.newDeque()
		if err != nil {
			return sut{}, cfg, err
		}
		return dequeSUT(d), cfg, nil
	}
	cfg := drawQueueConfig(rng)
	q, err := cfg.newQueue()
	if err != nil {
		return sut{}, cfg, err
	}
	return queueSUT(q), cfg, nil
}

func linHistory(r *kit.Run, prop string, deque bool, idx int64, rng *rand.Rand) {
	s, cfg, err := makeSUT(deque, rng)
	if err != nil {
		r.Violation(prop+"/config/valid-options-rejected", idx, cfg.Detail, err.Error(), nil)
		return
	}
	clients := 3 + rng.IntN(4)
	per := 4 + rng.IntN(7)
	procs := kit.ProcsFor(idx)
	if deque && procs == 1 {
		// two Deque waiters on one condition variable wake each other in a
		// tight loop; with one processor that loop starves everything else
		// between preemption ticks (DESIGN 3.3) and a history takes seconds
		procs = 2
	}
	var nextID byte = 1
	plans := make([][]qin, clients)
	yields := make([][]int, clients)
	for c := range plans {
		for j := 0; j < per; j++ {
			op := s.ops[rng.IntN(len(s.ops))]
			in := qin{Op: op}
			if carriesValue(op) {
				in.V = nextID
				nextID++
			}
			plans[c] = append(plans[c], in)
			yields[c] = append(yields[c], rng.IntN(4))
		}
	}
	// controller script: at which number of completed operations to
	// cancel a client or close the container
	type action struct {
		after  int
		cancel int // client to cancel, -1 = close
	}
	var acts []action
	total := clients * per
	for k := rng.IntN(3); k > 0; k-- {
		a := action{after: rng.IntN(total + 1), cancel: rng.IntN(clients)}
		if rng.IntN(3) == 0 {
			a.cancel = -1
		}
		acts = append(acts, a)
	}
	hookYield := rng.IntN(3) == 0

	h := &kit.Hist{}
	var completed atomic.Int64
	var inOp atomic.Int64 // number of clients currently inside a library call
	var ctxViolation atomic.Value
	ctxs := make([]context.Context, clients)
	cancels := make([]context.CancelFunc, clients)
	cancelled := make([]atomic.Bool, clients)
	for c := range ctxs {
		ctxs[c], cancels[c] = context.WithCancel(context.Background())
	}
	var panicMsg atomic.Value
	done := make(chan struct{})
	run := func() {
		bar := kit.NewBarrier(clients)
		var wg sync.WaitGroup
		for c := 0; c < clients; c++ {
			wg.Add(1)
			go func(c int) {
				defer wg.Done()
				defer func() {
					if p := recover(); p != nil {
						panicMsg.Store(fmt.Sprint(p))
					}
				}()
				bar.Wait()
				for j, in := range plans[c] {
					kit.Yields(yields[c][j])
					in := in
					inOp.Add(1)
					wasCancelled := cancelled[c].Load()
					out := h.Do(c, in, func() any { return s.apply(ctxs[c], in) }).(qout)
					inOp.Add(-1)
					if out.Err == "ctx" && !wasCancelled && !cancelled[c].Load() {
						ctxViolation.Store(fmt.Sprintf("client %d: %v returned a context error although its context was never cancelled", c, in))
					}
					completed.Add(1)
				}
			}(c)
		}
		go func() { wg.Wait(); close(done) }()
		// controller
		ai := 0
		lastCompleted, idle := int64(-1), 0
		lastProgress := time.Now()
		for {
			select {
			case <-done:
				return
			default:
			}
			cnow := completed.Load()
			stalled := false
			if cnow == lastCompleted {
				idle++
				// (two Deque waiters on one condition variable wake each
				// other in a tight loop and starve this goroutine when
				// GOMAXPROCS=1: also decide by elapsed time. The timing only
				// shapes the history, never the verdict.)
				if idle > 400 || (idle > 2 && time.Since(lastProgress) > 3*time.Millisecond) {
					stalled = true
				}
			} else {
				lastCompleted, idle, lastProgress = cnow, 0, time.Now()
			}
			if ai < len(acts) && (int(cnow) >= acts[ai].after || stalled) {
				a := acts[ai]
				ai++
				idle, lastProgress = 0, time.Now()
				if a.cancel >= 0 {
					cancelled[a.cancel].Store(true)
					cancels[a.cancel]()
				} else {
					h.Do(clients, qin{Op: "close"}, func() any { return s.apply(context.Background(), qin{Op: "close"}) })
				}
				continue
			}
			if stalled && ai >= len(acts) {
				// nothing moves any more: end the history (cancel-all, then close)
				for c := range cancels {
					cancelled[c].Store(true)
					cancels[c]()
				}
				h.Do(clients, qin{Op: "close"}, func() any { return s.apply(context.Background(), qin{Op: "close"}) })
				select {
				case <-done:
					return
				case <-time.After(20 * time.Second):
					return
				}
			}
			runtime.Gosched()
		}
	}
	kit.WithProcs(procs, func() {
		if hookYield {
			kit.WithHook(func(string) { kit.Yields(3) }, run)
		} else {
			run()
		}
	})
	select {
	case <-done:
	default:
		// clients still blocked after cancel-all + close: C07's business,
		// here the history cannot be closed
		r.Inconclusive(fmt.Sprintf("%s history %d: operations still pending after cancel-all and Close", prop, idx))
		return
	}
	for c := range cancels {
		cancels[c]()
	}
	// drain at quiescence: whatever is left must come out in model order
	for k := 0; k < 12; k++ {
		op := "remove"
		if deque {
			op = "len" // a closed deque refuses pops; observe the length only
		}
		in := qin{Op: op}
		out := h.Do(clients, in, func() any { return s.apply(context.Background(), in) }).(qout)
		if deque || !out.Ok {
			break
		}
	}
	ops := h.Ops()
	r.Eval()
	desc := map[string]any{"config": cfg.Detail, "clients": clients, "ops_per_client": per, "gomaxprocs": procs, "hook_yield": hookYield, "history": describeOps(ops)}
	if p := panicMsg.Load(); p != nil {
		r.Violation(prop+"/history/panic", idx, desc, p.(string), nil)
		return
	}
	if v := ctxViolation.Load(); v != nil {
		r.Violation(prop+"/history/spurious-context-error", idx, desc, v.(string), nil)
		return
	}
	for _, o := range ops {
		if e := o.Output.(qout).Err; len(e) > 6 && e[:6] == "other:" {
			r.Violation(prop+"/history/undocumented-error", idx, desc, fmt.Sprintf("%v returned %s", o.Input, e), nil)
			return
		}
	}
	init := cfg.initial()
	model := porcupine.Model{Init: func() any { return init }, Step: s.step}
	if r.Build != "plain" {
		// in the race-detector build the detector is the oracle; the
		// (10x slower) linearizability search is left to the plain build
		r.Count("histories_run_for_the_race_detector_only", 1)
		return
	}
	switch kit.CheckLin(model, ops, 20*time.Second) {
	case porcupine.Illegal:
		r.Violation(prop+"/history/not-linearizable", idx, desc, "no sequential execution of the documented container explains this history", nil)
		return
	case porcupine.Unknown:
		r.Inconclusive("porcupine timed out on a history of " + prop)
		return
	}
	r.Count("histories_ok", 1)
	r.Count("operations", int64(len(ops)))
	ov := kit.Overlaps(ops)
	r.Count("overlapping_pairs", int64(ov))
	blocking := 0
	for _, o := range ops {
		if isBlockingOp(o.Input.(qin).Op) {
			blocking++
		}
		switch o.Output.(qout).Err {
		case "ctx":
			r.Count("ops_ended_by_context", 1)
		case "closed":
			r.Count("ops_refused_closed", 1)
		case "full", "nocredit":
			r.Count("adds_refused_"+o.Output.(qout).Err, 1)
		}
	}
	if ov >= 2 && blocking >= 1 {
		r.Distinct(fmt.Sprintf("%s|c=%d|n=%d|p=%d|acts=%d", cfg.Detail, clients, per, procs, len(acts)))
	}
	if r.WantSample() && ov >= 2 {
		r.Sample(desc)
	}
}

// linScript is the sequential lock-step mode: one client, a long script,
// the model state is tracked exactly.
func linScript(r *kit.Run, prop string, deque bool, idx int64, rng *rand.Rand) {
	s, cfg, err := makeSUT(deque, rng)
	if err != nil {
		r.Violation(prop+"/config/valid-options-rejected", idx, cfg.Detail, err.Error(), nil)
		return
	}
	st := any(cfg.initial())
	n := 50 + rng.IntN(250)
	var script []string
	var id byte = 1
	ctx, cancel := context.WithCancel(context.Background())
	defer cancel()
	closedAt := -1
	if rng.IntN(4) == 0 {
		closedAt = rng.IntN(n)
	}
	r.Eval()
	for j := 0; j < n; j++ {
		op := s.ops[rng.IntN(len(s.ops))]
		if j == closedAt {
			op = "close"
		}
		cur := st.(qstate)
		// a single client must not call an operation that would block
		// for ever: only issue blocking calls whose condition holds
		switch op {
		case "blockingadd", "waitpushfront", "waitpushback":
			if !cur.Closed && cur.len() >= cur.cap() {
				op = s.ops[0]
			}
		case "wait", "receive", "waitfront", "waitback":
			if !cur.Closed && cur.len() == 0 {
				op = s.ops[0]
			}
		}
		in := qin{Op: op}
		if carriesValue(op) {
			in.V = id
			id++
			if id == 0 {
				id = 1
			}
		}
		var out qout
		panicked, pv, _ := kit.Guard(func() { out = s.apply(ctx, in) })
		script = append(script, fmt.Sprintf("%v -> %v", in, out))
		if len(script) > 60 {
			script = script[len(script)-60:]
		}
		desc := map[string]any{"config": cfg.Detail, "last_steps": script, "step": j}
		if panicked {
			r.Violation(prop+"/script/panic", idx, desc, fmt.Sprint(pv), nil)
			return
		}
		ok, ns := s.step(st, in, out)
		if !ok {
			r.Violation(prop+"/script/diverges-from-model", idx, desc,
				fmt.Sprintf("step %d: %v returned %v which the sequential model does not allow in state %+v", j, in, out, cur), nil)
			return
		}
		st = ns
		if l := st.(qstate); l.Kind != limUnlimited && l.len() > l.Hard {
			r.Violation(prop+"/script/over-hard-limit", idx, desc, fmt.Sprintf("length %d exceeds the hard limit %d", l.len(), l.Hard), nil)
			return
		}
	}
	r.Count("script_steps", int64(n))
	r.Distinct("script|" + cfg.Detail)
}
