package mon

import (
	"fmt"
	"math"
	"math/bits"
	"math/rand/v2"
	"sort"

	"github.com/tychoish/fun/dt/hdrhist"

	"verif/kit"
)

// C19 — the HDR histogram conserves counts and answers quantiles within
// its precision. Oracle: a sorted copy of the recorded multiset gives
// the exact order statistic.

func init() { register("C19", runC19) }

type c19shape struct {
	Min, Max int64
	Sig      int
}

func c19Shape(rng *rand.Rand, idx int64) c19shape {
	var s c19shape
	// sigfigs: 4 and 5 allocate large count arrays, keep them rarer
	switch x := rng.IntN(20); {
	case x < 7:
		s.Sig = 1
	case x < 13:
		s.Sig = 2
	case x < 17:
		s.Sig = 3
	case x < 19:
		s.Sig = 4
	default:
		s.Sig = 5
	}
	switch rng.IntN(4) {
	case 0:
		s.Min = 1
	case 1:
		s.Min = int64(1) << uint(rng.IntN(13))
	default:
		s.Min = 1 + rng.Int64N(4096)
	}
	sub := int64(1) << uint(math.Ceil(math.Log2(2*math.Pow10(s.Sig))))
	unit := int64(1) << uint(bits.Len64(uint64(s.Min))-1)
	maxExp := 40
	if s.Sig >= 4 {
		maxExp = 26
	}
	switch rng.IntN(5) {
	case 0: // exactly on a bucket boundary subBucketCount*2^k*unit
		k := rng.IntN(10)
		s.Max = sub * unit << uint(k)
	case 1: // boundary +- 1
		k := rng.IntN(10)
		s.Max = sub*unit<<uint(k) + int64(rng.IntN(3)) - 1
	case 2: // power of two
		s.Max = int64(1) << uint(2+rng.IntN(maxExp-2))
	default:
		s.Max = s.Min + 1 + rng.Int64N(int64(1)<<uint(4+rng.IntN(maxExp-4)))
	}
	if s.Max <= s.Min {
		s.Max = s.Min + 1 + int64(rng.IntN(1000))
	}
	if s.Max > int64(1)<<uint(maxExp) {
		s.Max = int64(1) << uint(maxExp)
	}
	return s
}

func c19Values(rng *rand.Rand, s c19shape) []int64 {
	n := 1 + rng.IntN(60)
	if rng.IntN(6) == 0 {
		n = 100 + rng.IntN(400)
	}
	sub := int64(1) << uint(math.Ceil(math.Log2(2*math.Pow10(s.Sig))))
	unit := int64(1) << uint(bits.Len64(uint64(s.Min))-1)
	clamp := func(v int64) int64 {
		if v < s.Min {
			return s.Min
		}
		if v > s.Max {
			return s.Max
		}
		return v
	}
	out := make([]int64, 0, n)
	var dup int64 = -1
	for len(out) < n {
		var v int64
		switch rng.IntN(9) {
		case 0:
			v = s.Min
		case 1:
			v = s.Max
		case 2: // power of two +-1
			v = int64(1)<<uint(rng.IntN(41)) + int64(rng.IntN(3)) - 1
		case 3: // bucket boundary +-1
			v = sub*unit<<uint(rng.IntN(12)) + int64(rng.IntN(3)) - 1
		case 4: // sub-bucket boundary
			v = (sub/2+int64(rng.IntN(int(sub/2))))*unit<<uint(rng.IntN(8)) + int64(rng.IntN(3)) - 1
		case 5: // heavy duplicates
			if dup < 0 {
				dup = s.Min + rng.Int64N(s.Max-s.Min+1)
			}
			v = dup
		case 6: // near min
			v = s.Min + int64(rng.IntN(8))
		case 7: // near max
			v = s.Max - int64(rng.IntN(8))
		default:
			v = s.Min + rng.Int64N(s.Max-s.Min+1)
		}
		out = append(out, clamp(v))
	}
	return out
}

func runC19(r *kit.Run) {
	n := int64(r.Scale(2400, 150000))
	for i := int64(0); i < n && !r.Stopped(); i++ {
		if !r.Mine(i) {
			continue
		}
		rng := r.Rng("hdr", i)
		shape := c19Shape(rng, i)
		if i%3 == 2 {
			c19Session(r, i, rng, shape)
			continue
		}
		vals := c19Values(rng, shape)
		caseDesc := map[string]any{"min": shape.Min, "max": shape.Max, "sigfigs": shape.Sig, "values": clipVals(vals)}
		viol := func(kind, detail string) {
			cd := map[string]any{"min": shape.Min, "max": shape.Max, "sigfigs": shape.Sig, "values": vals}
			r.Violation("C19/"+kind, i, cd, detail, nil)
		}
		r.Eval()
		panicked, pv, pst := kit.Guard(func() {
			h := hdrhist.New(shape.Min, shape.Max, shape.Sig)
			// duplicates are recorded partly through RecordValues(v, n)
			counts := map[int64]int64{}
			var order []int64
			for _, v := range vals {
				if counts[v] == 0 {
					order = append(order, v)
				}
				counts[v]++
			}
			useMulti := rng.IntN(2) == 0
			for _, v := range order {
				n := counts[v]
				if useMulti && n > 1 {
					if err := h.RecordValues(v, n-1); err != nil {
						viol("RecordValue/in-range-rejected", fmt.Sprintf("RecordValues(%d,%d) with range [%d,%d] sigfigs %d: %v", v, n-1, shape.Min, shape.Max, shape.Sig, err))
						return
					}
					n = 1
				}
				for ; n > 0; n-- {
					if err := h.RecordValue(v); err != nil {
						viol("RecordValue/in-range-rejected", fmt.Sprintf("RecordValue(%d) with range [%d,%d] sigfigs %d: %v", v, shape.Min, shape.Max, shape.Sig, err))
						return
					}
				}
			}
			// values outside the range may be refused but never break anything
			for _, out := range []int64{shape.Max*2 + 1, shape.Max + (shape.Max / 2) + 1} {
				_ = h.RecordValue(out) == nil && func() bool { vals = append(vals, out); return true }()
			}
			if h.TotalCount() != int64(len(vals)) {
				viol("TotalCount/mismatch", fmt.Sprintf("TotalCount()=%d after %d records", h.TotalCount(), len(vals)))
				return
			}
			sorted := append([]int64(nil), vals...)
			sort.Slice(sorted, func(a, b int) bool { return sorted[a] < sorted[b] })
			unitW := int64(1) << uint(bits.Len64(uint64(shape.Min))-1) // 2^floor(log2 min)
			bound := func(exact int64) int64 {
				b := int64(float64(exact) / math.Pow10(shape.Sig))
				if unitW > b {
					b = unitW
				}
				return b
			}
			qs := []float64{25, 50, 90, 99, 99.9, 100, 100 * rng.Float64(), 100 * rng.Float64(), 0.01, 100.0 / float64(len(vals))}
			for _, q := range qs {
				if q <= 0 {
					continue
				}
				rank := int64(((q / 100) * float64(len(vals))) + 0.5)
				if rank < 1 {
					continue
				}
				if rank > int64(len(vals)) {
					rank = int64(len(vals))
				}
				exact := sorted[rank-1]
				v := h.ValueAtQuantile(q)
				if v < exact || v-exact > bound(exact) {
					viol("ValueAtQuantile/out-of-precision", fmt.Sprintf("q=%v rank=%d exact=%d got=%d allowed [exact, exact+%d]", q, rank, exact, v, bound(exact)))
					return
				}
			}
			lo, hi := sorted[0], sorted[len(sorted)-1]
			if mn := h.Min(); mn > lo || lo-mn > bound(lo) {
				viol("Min/out-of-precision", fmt.Sprintf("Min()=%d, smallest recorded %d, precision %d", mn, lo, bound(lo)))
				return
			}
			if mx := h.Max(); mx < hi || mx-hi > bound(hi) {
				viol("Max/out-of-precision", fmt.Sprintf("Max()=%d, largest recorded %d, precision %d", mx, hi, bound(hi)))
				return
			}
			var sum float64
			for _, v := range vals {
				sum += float64(v)
			}
			mean := sum / float64(len(vals))
			if m := h.Mean(); math.Abs(m-mean) > float64(bound(hi))+1 {
				viol("Mean/out-of-precision", fmt.Sprintf("Mean()=%v, exact mean %v, precision %d", m, mean, bound(hi)))
				return
			}
			// Export -> Import
			imp := hdrhist.Import(h.Export())
			if !imp.Equals(h) || !h.Equals(imp) || imp.TotalCount() != h.TotalCount() {
				viol("Import/not-equal", "Import(Export(h)) is not Equal to h")
				return
			}
			// the imported histogram is independent of the original: mutating
			// it must not change what the original answers
			before := []int64{h.TotalCount(), h.ValueAtQuantile(50), h.ValueAtQuantile(100), h.Min(), h.Max()}
			snap := h.Export()
			imp2 := hdrhist.Import(snap)
			for k := 0; k < 3; k++ {
				_ = imp2.RecordValue(shape.Min)
				_ = imp2.RecordValue(shape.Max)
			}
			if rng.IntN(2) == 0 {
				imp2.Reset()
			}
			after := []int64{h.TotalCount(), h.ValueAtQuantile(50), h.ValueAtQuantile(100), h.Min(), h.Max()}
			for k := range before {
				if before[k] != after[k] {
					viol("Import/aliases-original", fmt.Sprintf("after mutating Import(Export(h)) the original answers changed: [TotalCount P50 P100 Min Max] %v -> %v", before, after))
					return
				}
			}
			if !hdrhist.Import(h.Export()).Equals(h) {
				viol("Import/aliases-original", "after mutating an imported copy, a fresh Import(Export(h)) is no longer Equal to h")
				return
			}
			// Merge into an empty histogram of the same shape
			empty := hdrhist.New(shape.Min, shape.Max, shape.Sig)
			if dropped := empty.Merge(h); dropped != 0 {
				viol("Merge/dropped", fmt.Sprintf("Merge into an empty histogram of the same shape dropped %d", dropped))
				return
			}
			if !empty.Equals(h) {
				viol("Merge/not-equal", fmt.Sprintf("Merge into an empty histogram of the same shape is not Equal (TotalCount %d vs %d)", empty.TotalCount(), h.TotalCount()))
				return
			}
			// the other read-only views must not trip the invariant panics
			_ = h.CumulativeDistribution()
			_ = h.Distribution()
			_ = h.StdDev()
			// a windowed histogram of the same shape merges to the same totals
			if rng.IntN(4) == 0 && shape.Sig <= 3 {
				w := hdrhist.NewWindowed(2, shape.Min, shape.Max, shape.Sig)
				for k, v := range vals {
					if k == len(vals)/2 {
						w.Rotate()
					}
					if err := w.Current.RecordValue(v); err != nil {
						viol("Windowed/in-range-rejected", err.Error())
						return
					}
				}
				if m := w.Merge(); m.TotalCount() != int64(len(vals)) || !m.Equals(h) {
					viol("Windowed/merge-mismatch", fmt.Sprintf("windowed Merge has TotalCount %d, expected %d", m.TotalCount(), len(vals)))
					return
				}
			}
		})
		if panicked {
			viol("panic", fmt.Sprintf("panic: %v\n%s", pv, clipS(pst, 1500)))
			continue
		}
		boundary := shape.Max&(shape.Max-1) == 0
		r.Distinct(fmt.Sprintf("sig=%d|minclass=%d|maxclass=%d|pow2max=%v|n=%s", shape.Sig, bits.Len64(uint64(shape.Min)), bits.Len64(uint64(shape.Max)), boundary, lenClass(len(vals))))
		r.Count("values_recorded", int64(len(vals)))
		if r.WantSample() {
			r.Sample(caseDesc)
		}
	}
}

func clipVals(v []int64) []int64 {
	if len(v) > 24 {
		return v[:24]
	}
	return v
}

// c19Queries compares the answers of h with the recorded multiset vals
// (TotalCount, quantiles, Min, Max). It returns the first disagreement.
func c19Queries(h *hdrhist.Histogram, vals []int64, shape c19shape, rng *rand.Rand, all bool) (string, string) {
	if h.TotalCount() != int64(len(vals)) {
		return "TotalCount/mismatch", fmt.Sprintf("TotalCount()=%d after %d recorded occurrences", h.TotalCount(), len(vals))
	}
	if len(vals) == 0 {
		// an empty histogram answers something, without panicking
		_, _, _ = h.ValueAtQuantile(50), h.Min(), h.Max()
		return "", ""
	}
	sorted := append([]int64(nil), vals...)
	sort.Slice(sorted, func(a, b int) bool { return sorted[a] < sorted[b] })
	unitW := int64(1) << uint(bits.Len64(uint64(shape.Min))-1)
	bound := func(exact int64) int64 {
		b := int64(float64(exact) / math.Pow10(shape.Sig))
		if unitW > b {
			b = unitW
		}
		return b
	}
	qs := []float64{100, 100 * rng.Float64(), 100 * rng.Float64(), 100.0 / float64(len(vals))}
	if all {
		qs = append(qs, 25, 50, 90, 99, 99.9, 99.99, 0.01, 100*float64(len(vals)-1)/float64(len(vals)))
	}
	for _, q := range qs {
		if q <= 0 {
			continue
		}
		rank := int64(((q / 100) * float64(len(vals))) + 0.5)
		if rank < 1 {
			continue
		}
		if rank > int64(len(vals)) {
			rank = int64(len(vals))
		}
		exact := sorted[rank-1]
		if exact < shape.Min || exact > shape.Max {
			continue // an accepted value outside the configured range has no stated precision
		}
		v := h.ValueAtQuantile(q)
		if v < exact || v-exact > bound(exact) {
			return "ValueAtQuantile/out-of-precision", fmt.Sprintf("q=%v rank=%d exact=%d got=%d allowed [exact, exact+%d]", q, rank, exact, v, bound(exact))
		}
	}
	lo, hi := sorted[0], sorted[len(sorted)-1]
	if lo >= shape.Min {
		if mn := h.Min(); mn > lo || lo-mn > bound(lo) {
			return "Min/out-of-precision", fmt.Sprintf("Min()=%d, smallest recorded %d, precision %d", mn, lo, bound(lo))
		}
	}
	if hi <= shape.Max {
		if mx := h.Max(); mx < hi || mx-hi > bound(hi) {
			return "Max/out-of-precision", fmt.Sprintf("Max()=%d, largest recorded %d, precision %d", mx, hi, bound(hi))
		}
	}
	return "", ""
}

// c19Session drives one histogram through a program of recordings, resets,
// corrected recordings and queries, and keeps working on copies obtained by
// Export/Import and by Merge into an empty histogram of the same shape: a
// copy that is "Equal" but lost a field shows in the later answers.
func c19Session(r *kit.Run, i int64, rng *rand.Rand, shape c19shape) {
	pool := c19Values(rng, shape)
	var log []string
	var vals []int64
	viol := func(kind, detail string) {
		cd := map[string]any{"mode": "session", "min": shape.Min, "max": shape.Max, "sigfigs": shape.Sig, "ops": log}
		r.Violation("C19/"+kind, i, cd, detail, nil)
	}
	r.Eval()
	kinds := map[string]bool{}
	bad := false
	panicked, pv, pst := kit.Guard(func() {
		h := hdrhist.New(shape.Min, shape.Max, shape.Sig)
		steps := 4 + rng.IntN(40)
		pick := func() int64 { return pool[rng.IntN(len(pool))] }
		for s := 0; s < steps && !bad; s++ {
			switch x := rng.IntN(20); {
			case x < 6:
				v := pick()
				log = append(log, fmt.Sprintf("RecordValue(%d)", v))
				if err := h.RecordValue(v); err != nil {
					viol("RecordValue/in-range-rejected", fmt.Sprintf("RecordValue(%d) with range [%d,%d] sigfigs %d: %v", v, shape.Min, shape.Max, shape.Sig, err))
					bad = true
					return
				}
				vals = append(vals, v)
				kinds["rec"] = true
			case x < 9:
				v, n := pick(), int64(1+rng.IntN(6))
				log = append(log, fmt.Sprintf("RecordValues(%d,%d)", v, n))
				if err := h.RecordValues(v, n); err != nil {
					viol("RecordValue/in-range-rejected", fmt.Sprintf("RecordValues(%d,%d) with range [%d,%d] sigfigs %d: %v", v, n, shape.Min, shape.Max, shape.Sig, err))
					bad = true
					return
				}
				for ; n > 0; n-- {
					vals = append(vals, v)
				}
				kinds["recN"] = true
			case x < 12:
				// corrected recording: the expected interval is inside the range, so
				// every back-filled value v-k*e >= e is a value in [min, max]
				v := pick()
				e := shape.Min
				if v > shape.Min {
					e += rng.Int64N(v - shape.Min + 1)
				}
				if rng.IntN(3) == 0 {
					e = v // boundary: nothing to back-fill
				}
				if v/e > 150 {
					e = v/150 + 1
				}
				log = append(log, fmt.Sprintf("RecordCorrectedValue(%d,%d)", v, e))
				if err := h.RecordCorrectedValue(v, e); err != nil {
					viol("RecordValue/in-range-rejected", fmt.Sprintf("RecordCorrectedValue(%d,%d) with range [%d,%d] sigfigs %d: %v", v, e, shape.Min, shape.Max, shape.Sig, err))
					bad = true
					return
				}
				vals = append(vals, v)
				if v > e {
					for m := v - e; m >= e; m -= e {
						vals = append(vals, m)
					}
				}
				kinds["corrected"] = true
			case x < 13:
				out := shape.Max*2 + 1 + rng.Int64N(shape.Max)
				log = append(log, fmt.Sprintf("RecordValue(%d) (above the range)", out))
				if h.RecordValue(out) == nil {
					vals = append(vals, out)
				}
				kinds["above"] = true
			case x < 14:
				log = append(log, "Reset")
				h.Reset()
				vals = vals[:0]
				kinds["reset"] = true
			case x < 16:
				log = append(log, "h = Import(h.Export())")
				imp := hdrhist.Import(h.Export())
				if !imp.Equals(h) || !h.Equals(imp) {
					viol("Import/not-equal", "Import(Export(h)) is not Equal to h")
					bad = true
					return
				}
				h = imp
				kinds["import"] = true
			case x < 17:
				log = append(log, "h = New(shape).Merge(h)")
				e := hdrhist.New(shape.Min, shape.Max, shape.Sig)
				above := false
				for _, v := range vals {
					above = above || v > shape.Max
				}
				dropped := e.Merge(h)
				if above {
					// accepted values beyond the configured maximum: observed only
					if dropped != 0 || !e.Equals(h) {
						continue
					}
				} else if dropped != 0 {
					viol("Merge/dropped", fmt.Sprintf("Merge into an empty histogram of the same shape dropped %d", dropped))
					bad = true
					return
				} else if !e.Equals(h) || !h.Equals(e) {
					viol("Merge/not-equal", fmt.Sprintf("Merge into an empty histogram of the same shape is not Equal (TotalCount %d vs %d)", e.TotalCount(), h.TotalCount()))
					bad = true
					return
				}
				h = e
				kinds["merge"] = true
			case x < 18:
				// merge from a histogram with a wider range: what does not fit is
				// reported as dropped and is not counted; values inside this
				// histogram's range always fit
				wide := hdrhist.New(shape.Min, shape.Max*16+1, shape.Sig)
				probe := hdrhist.New(shape.Min, shape.Max, shape.Sig)
				var fits []int64
				var wantDropped int64
				nv := 1 + rng.IntN(6)
				var desc []int64
				for k := 0; k < nv; k++ {
					v := pick()
					if rng.IntN(2) == 0 {
						v = shape.Max + 1 + rng.Int64N(shape.Max*15)
					}
					desc = append(desc, v)
					if err := wide.RecordValue(v); err != nil {
						viol("RecordValue/in-range-rejected", fmt.Sprintf("RecordValue(%d) with range [%d,%d]: %v", v, shape.Min, shape.Max*16+1, err))
						bad = true
						return
					}
					if v <= shape.Max || probe.RecordValue(v) == nil {
						fits = append(fits, v)
					} else {
						wantDropped++
					}
				}
				log = append(log, fmt.Sprintf("h.Merge(New(min, 16*max+1) holding %v)", desc))
				before := h.TotalCount()
				dropped := h.Merge(wide)
				if dropped != wantDropped {
					viol("Merge/dropped", fmt.Sprintf("Merge from a wider histogram holding %v reported %d dropped; %d of the values do not fit the receiver [%d,%d]", desc, dropped, wantDropped, shape.Min, shape.Max))
					bad = true
					return
				}
				if got := h.TotalCount(); got != before+int64(len(fits)) {
					viol("TotalCount/mismatch", fmt.Sprintf("TotalCount()=%d after merging %d values of which %d were dropped into a histogram that held %d", got, nv, dropped, before))
					bad = true
					return
				}
				vals = append(vals, fits...)
				kinds["merge-wider"] = true
			default:
				log = append(log, "query")
				if k, d := c19Queries(h, vals, shape, rng, false); k != "" {
					viol(k, d)
					bad = true
					return
				}
			}
		}
		if bad {
			return
		}
		log = append(log, "final queries")
		if k, d := c19Queries(h, vals, shape, rng, true); k != "" {
			viol(k, d)
			bad = true
			return
		}
		_ = h.CumulativeDistribution()
		_ = h.Distribution()
		_, _ = h.StdDev(), h.Mean()
	})
	if panicked {
		viol("panic", fmt.Sprintf("panic: %v\n%s", pv, clipS(pst, 1500)))
		return
	}
	if bad {
		return
	}
	ks := make([]string, 0, len(kinds))
	for k := range kinds {
		ks = append(ks, k)
	}
	sort.Strings(ks)
	r.Distinct(fmt.Sprintf("session|sig=%d|minclass=%d|maxclass=%d|ops=%v", shape.Sig, bits.Len64(uint64(shape.Min)), bits.Len64(uint64(shape.Max)), ks))
	r.Count("session_values_recorded", int64(len(vals)))
	r.Count("sessions", 1)
	if r.WantSample() {
		if len(log) > 30 {
			log = log[:30]
		}
		r.Sample(map[string]any{"mode": "session", "min": shape.Min, "max": shape.Max, "sigfigs": shape.Sig, "ops": log})
	}
}
