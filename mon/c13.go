package mon

import (
	"context"
	"errors"
	"fmt"
	"runtime"
	"sort"
	"strings"
	"sync"
	"sync/atomic"
	"time"

	"github.com/tychoish/fun"
	"github.com/tychoish/fun/adt"
	"github.com/tychoish/fun/dt"
	"github.com/tychoish/fun/erc"
	"github.com/tychoish/fun/ers"
	"github.com/tychoish/fun/pubsub"

	"verif/kit"
)

// C13 — concurrency-safe types are free of data races. The Go race
// detector is the oracle; this monitor's job is to make the right pairs
// of accesses overlap: for every type a method-pair matrix, each pair
// driven by goroutines released from a barrier on one shared instance.
//
// No shared atomic clock is used around the calls (atomic operations
// are synchronisation for the detector and would hide races): call
// intervals are taken with the monotonic clock per goroutine and only
// used, afterwards, to count how many intervals really overlapped.

func init() { register("C13", runC13) }

type c13Driver struct {
	name string
	call func(g, i int)
}

type c13Subject struct {
	name  string
	setup func() (drivers []c13Driver, teardown func())
}

// guardedTouch is shared state that only a library lock (Lock/WithLock
// /Once/Limit wrappers) protects: a race reported between two accesses
// in this function means the wrapper failed to exclude.
type guarded struct{ n, m int }

//go:noinline
func guardedTouch(g *guarded) int { g.n++; g.m = g.n * 2; return g.m }

//go:noinline
func guardedRead(g *guarded) int { return g.n + g.m }

// cancelSoon returns a context that a helper goroutine cancels after a
// few yields: blocking calls return without timers.
func cancelSoon(k int) (context.Context, context.CancelFunc) {
	ctx, cancel := context.WithCancel(context.Background())
	go func() { kit.Yields(5 + k%20); cancel() }()
	return ctx, cancel
}

func c13Subjects() []c13Subject {
	var subs []c13Subject
	bg := context.Background()
	// ---- pubsub.Queue ------------------------------------------------------
	subs = append(subs, c13Subject{"Queue", func() ([]c13Driver, func()) {
		q, _ := pubsub.NewQueue[int](pubsub.QueueOptions{HardLimit: 64, SoftQuota: 8, BurstCredit: 4})
		for i := 0; i < 6; i++ {
			_ = q.Add(i)
		}
		d := q.Distributor()
		iters := make([]func(context.Context) (int, error), 8)
		for i := range iters {
			iters[i] = q.Iterator().ReadOne
		}
		return []c13Driver{
			{"Add", func(g, i int) { _ = q.Add(g*1000 + i) }},
			{"BlockingAdd", func(g, i int) { ctx, c := cancelSoon(i); _ = q.BlockingAdd(ctx, i); c() }},
			{"Remove", func(g, i int) { q.Remove() }},
			{"Wait", func(g, i int) { ctx, c := cancelSoon(i); _, _ = q.Wait(ctx); c() }},
			{"Len", func(g, i int) { _ = q.Len() }},
			{"Iterator.Next", func(g, i int) { ctx, c := cancelSoon(i); _, _ = iters[g%len(iters)](ctx); c() }},
			{"Distributor.Send", func(g, i int) { _ = d.Send(bg, i) }},
			{"Distributor.Receive", func(g, i int) { ctx, c := cancelSoon(i); _, _ = d.Receive(ctx); c() }},
			{"Distributor.Len", func(g, i int) { _ = d.Len() }},
			{"Close(last)", func(g, i int) {
				if i > 200 {
					_ = q.Close()
				} else {
					_ = q.Len()
				}
			}},
		}, func() { _ = q.Close() }
	}})
	// ---- pubsub.Deque ------------------------------------------------------
	subs = append(subs, c13Subject{"Deque", func() ([]c13Driver, func()) {
		q, _ := pubsub.NewDeque[int](pubsub.DequeOptions{Capacity: 12})
		for i := 0; i < 5; i++ {
			_ = q.PushBack(i)
		}
		d := q.Distributor()
		dnb := q.DistributorNonBlocking()
		fw, rv, rvb := make([]fun.Producer[int], 8), make([]fun.Producer[int], 8), make([]fun.Producer[int], 8)
		for i := range fw {
			fw[i], rv[i], rvb[i] = q.ProducerBlocking(), q.ProducerReverse(), q.ProducerReverseBlocking()
		}
		return []c13Driver{
			{"PushFront", func(g, i int) { _ = q.PushFront(i) }},
			{"PushBack", func(g, i int) { _ = q.PushBack(i) }},
			{"PopFront", func(g, i int) { q.PopFront() }},
			{"PopBack", func(g, i int) { q.PopBack() }},
			{"ForcePushFront", func(g, i int) { _ = q.ForcePushFront(i) }},
			{"ForcePushBack", func(g, i int) { _ = q.ForcePushBack(i) }},
			{"WaitFront", func(g, i int) { ctx, c := cancelSoon(i); _, _ = q.WaitFront(ctx); c() }},
			{"WaitBack", func(g, i int) { ctx, c := cancelSoon(i); _, _ = q.WaitBack(ctx); c() }},
			{"WaitPushFront", func(g, i int) { ctx, c := cancelSoon(i); _ = q.WaitPushFront(ctx, i); c() }},
			{"WaitPushBack", func(g, i int) { ctx, c := cancelSoon(i); _ = q.WaitPushBack(ctx, i); c() }},
			{"Len", func(g, i int) { _ = q.Len() }},
			{"ProducerBlocking.Next", func(g, i int) { ctx, c := cancelSoon(i); _, _ = fw[g%len(fw)](ctx); c() }},
			{"ProducerReverse.Next", func(g, i int) { _, _ = rv[g%len(rv)](bg) }},
			{"ProducerReverseBlocking.Next", func(g, i int) { ctx, c := cancelSoon(i); _, _ = rvb[g%len(rvb)](ctx); c() }},
			{"Iterator(full)", func(g, i int) {
				it := q.Iterator()
				for k := 0; k < 20 && it.Next(bg); k++ {
				}
			}},
			{"IteratorReverse(full)", func(g, i int) {
				it := q.IteratorReverse()
				for k := 0; k < 20 && it.Next(bg); k++ {
				}
			}},
			{"DistributorNonBlocking.Send/Receive", func(g, i int) {
				if i%2 == 0 {
					_ = dnb.Send(bg, i)
				} else {
					c, cc := cancelSoon(i) // the pop side waits while the deque is empty
					_, _ = dnb.Receive(c)
					cc()
				}
				_ = dnb.Len()
			}},
			{"Distributor.Send/Receive", func(g, i int) {
				ctx, c := cancelSoon(i)
				if i%2 == 0 {
					_ = d.Send(ctx, i)
				} else {
					_, _ = d.Receive(ctx)
				}
				_ = d.Len()
				c()
			}},
			{"Close(last)", func(g, i int) {
				if i > 200 {
					_ = q.Close()
				} else {
					_ = q.Len()
				}
			}},
		}, func() { _ = q.Close() }
	}})
	// ---- pubsub.Broker -----------------------------------------------------
	for _, backend := range []string{"channel", "queue", "deque"} {
		backend := backend
		subs = append(subs, c13Subject{"Broker(" + backend + ")", func() ([]c13Driver, func()) {
			ctx, cancel := context.WithCancel(bg)
			var b *pubsub.Broker[int]
			opts := pubsub.BrokerOptions{WorkerPoolSize: 2, ParallelDispatch: backend == "queue"}
			switch backend {
			case "channel":
				b = pubsub.NewBroker[int](ctx, opts)
			case "queue":
				b = pubsub.NewQueueBroker[int](ctx, pubsub.NewUnlimitedQueue[int](), opts)
			default:
				b = pubsub.NewDequeBroker[int](ctx, pubsub.NewUnlimitedDeque[int](), opts)
			}
			reader := b.Subscribe(ctx)
			stop := make(chan struct{})
			go func() {
				for {
					select {
					case <-stop:
						return
					case <-reader:
					}
				}
			}()
			return []c13Driver{
					{"Publish", func(g, i int) { c, cc := cancelSoon(i); b.Publish(c, i); cc() }},
					{"Subscribe+Unsubscribe", func(g, i int) {
						c, cc := cancelSoon(i + 30)
						if ch := b.Subscribe(c); ch != nil {
							select {
							case <-ch:
							default:
							}
							b.Unsubscribe(c, ch)
						}
						cc()
					}},
					{"Stats", func(g, i int) { c, cc := cancelSoon(i); _ = b.Stats(c); cc() }},
					{"Stats(cancelled)", func(g, i int) { c, cc := context.WithCancel(bg); cc(); _ = b.Stats(c) }},
					{"Wait(cancelled soon)", func(g, i int) { c, cc := cancelSoon(i); b.Wait(c); cc() }},
					{"Stop(last)", func(g, i int) {
						if i > 200 {
							b.Stop()
						} else {
							c, cc := cancelSoon(i)
							_ = b.Stats(c)
							cc()
						}
					}},
				}, func() {
					b.Stop()
					cancel()
					close(stop)
					b.Wait(bg)
				}
		}})
	}
	// ---- fun.WaitGroup -----------------------------------------------------
	subs = append(subs, c13Subject{"WaitGroup", func() ([]c13Driver, func()) {
		wg := &fun.WaitGroup{}
		wg.Add(1) // keeps the counter positive: waiters really park
		return []c13Driver{
			{"Add+Done", func(g, i int) { wg.Add(2); wg.Done(); wg.Done() }},
			{"Inc+Done", func(g, i int) { wg.Inc(); wg.Done() }},
			{"Num", func(g, i int) { _ = wg.Num() }},
			{"IsDone", func(g, i int) { _ = wg.IsDone() }},
			{"Wait(cancelled soon)", func(g, i int) { c, cc := cancelSoon(i); wg.Wait(c); cc() }},
			{"Launch", func(g, i int) { wg.Launch(bg, func(context.Context) {}) }},
			{"DoTimes", func(g, i int) { wg.DoTimes(bg, 1+i%3, func(context.Context) {}) }},
			{"Worker", func(g, i int) { c, cc := cancelSoon(i); _ = wg.Worker().Run(c); cc() }},
		}, func() { wg.Done(); wg.Wait(bg) }
	}})
	// ---- erc.Collector -----------------------------------------------------
	subs = append(subs, c13Subject{"Collector", func() ([]c13Driver, func()) {
		ec := &erc.Collector{}
		ec.Add(errors.New("seed"))
		sentinel := errors.New("sentinel")
		return []c13Driver{
			{"Add", func(g, i int) { ec.Add(fmt.Errorf("e%d-%d", g, i)) }},
			{"Add(join)", func(g, i int) { ec.Add(ers.Join(sentinel, errors.New("x"))) }},
			{"Resolve+inspect", func(g, i int) {
				if err := ec.Resolve(); err != nil {
					_ = err.Error()
					_ = errors.Is(err, sentinel)
					_ = ers.Unwind(err)
				}
			}},
			{"Len", func(g, i int) { _ = ec.Len() }},
			{"HasErrors/Ok", func(g, i int) { _ = ec.HasErrors(); _ = ec.Ok() }},
			{"Iterator(full)", func(g, i int) {
				it := ec.Iterator()
				for k := 0; k < 50 && it.Next(bg); k++ {
					_ = it.Value().Error()
				}
			}},
			{"Future", func(g, i int) { _ = ec.Future()() }},
			{"Handler", func(g, i int) { ec.Handler()(errors.New("h")) }},
		}, func() {}
	}})
	// ---- adt.Map ------------------------------------------------------------
	subs = append(subs, c13Subject{"adt.Map", func() ([]c13Driver, func()) {
		m := &adt.Map[int, int]{}
		for i := 0; i < 8; i++ {
			m.Store(i, i)
		}
		return []c13Driver{
			{"Store", func(g, i int) { m.Store(i%16, i) }},
			{"Load", func(g, i int) { _, _ = m.Load(i % 16) }},
			{"Delete", func(g, i int) { m.Delete(i % 16) }},
			{"Get", func(g, i int) { _ = m.Get(i % 16) }},
			{"Check", func(g, i int) { _ = m.Check(i % 16) }},
			{"Ensure", func(g, i int) { m.Ensure(i % 16) }},
			{"EnsureStore", func(g, i int) { _ = m.EnsureStore(i%16, i) }},
			{"EnsureSet", func(g, i int) { _ = m.EnsureSet(dt.MakePair(i%16, i)) }},
			{"EnsureDefault", func(g, i int) { _ = m.EnsureDefault(i%16, func() int { return i }) }},
			{"UnmarshalJSON", func(g, i int) { _ = m.UnmarshalJSON([]byte(fmt.Sprintf(`{"%d":%d,"%d":1}`, i%16, i, (i+3)%16))) }},
			{"Set", func(g, i int) { m.Set(dt.MakePair(i%16, i)) }},
			{"Len", func(g, i int) { _ = m.Len() }},
			{"Range", func(g, i int) { m.Range(func(int, int) bool { return true }) }},
			{"Iterator(full)", func(g, i int) {
				it := m.Iterator()
				for k := 0; k < 40 && it.Next(bg); k++ {
				}
				_ = it.Close()
			}},
			{"Keys/Values(full)", func(g, i int) {
				it := m.Keys()
				for k := 0; k < 40 && it.Next(bg); k++ {
				}
				_ = it.Close()
				iv := m.Values()
				for k := 0; k < 40 && iv.Next(bg); k++ {
				}
				_ = iv.Close()
			}},
			{"MarshalJSON", func(g, i int) { _, _ = m.MarshalJSON() }},
			{"Swap", func(g, i int) { _, _ = m.Swap(i%16, i) }},
		}, func() {}
	}})
	// ---- adt.Atomic / Synchronized / Once / Pool -------------------------------
	subs = append(subs, c13Subject{"adt.Atomic", func() ([]c13Driver, func()) {
		a := adt.NewAtomic(1)
		return []c13Driver{
			{"Set", func(g, i int) { a.Set(i) }},
			{"Get", func(g, i int) { _ = a.Get() }},
			{"Swap", func(g, i int) { _ = a.Swap(i) }},
			{"CompareAndSwap", func(g, i int) { _ = adt.CompareAndSwap[int](a, i, i+1) }},
			{"SafeSet", func(g, i int) { adt.SafeSet[int](a, i%3) }},
			{"Reset", func(g, i int) { _ = adt.Reset[int](a) }},
		}, func() {}
	}})
	subs = append(subs, c13Subject{"adt.Synchronized", func() ([]c13Driver, func()) {
		s := adt.NewSynchronized(map[int]int{1: 1})
		n := adt.NewSynchronized(1)
		return []c13Driver{
			{"With(mutate)", func(g, i int) { s.With(func(m map[int]int) { m[i%8] = i }) }},
			{"With(read)", func(g, i int) { s.With(func(m map[int]int) { _ = m[i%8] }) }},
			{"Set", func(g, i int) { n.Set(i) }},
			{"Get/Load", func(g, i int) { _ = n.Get(); _ = n.Load() }},
			{"Swap", func(g, i int) { _ = n.Swap(i) }},
			{"String", func(g, i int) { _ = n.String() }},
			{"Using", func(g, i int) { n.Using(func() {}) }},
			{"CompareAndSwap", func(g, i int) { _ = adt.CompareAndSwap[int](n, i, i+1) }},
			{"SafeSet", func(g, i int) { adt.SafeSet[int](n, i%3) }},
		}, func() {}
	}})
	subs = append(subs, c13Subject{"adt.Accessors", func() ([]c13Driver, func()) {
		// getter / setter pairs over plain state, guarded only by the lock the
		// library wraps around them
		st, st2 := &guarded{}, &guarded{}
		get, set := adt.AccessorsWithLock(fun.Future[int](func() int { return guardedRead(st) }), fun.Handler[int](func(int) { guardedTouch(st) }))
		rget, rset := adt.AccessorsWithReadLock(fun.Future[int](func() int { return guardedRead(st2) }), fun.Handler[int](func(int) { guardedTouch(st2) }))
		return []c13Driver{
			{"WithLock getter", func(g, i int) { _ = get() }},
			{"WithLock setter", func(g, i int) { set(i) }},
			{"WithReadLock getter", func(g, i int) { _ = rget() }},
			{"WithReadLock setter", func(g, i int) { rset(i) }},
		}, func() {}
	}})
	subs = append(subs, c13Subject{"adt.Once", func() ([]c13Driver, func()) {
		st := &guarded{}
		o := &adt.Once[int]{}
		return []c13Driver{
			{"Do", func(g, i int) { o.Do(func() int { return guardedTouch(st) }) }},
			{"Resolve", func(g, i int) { _ = o.Resolve() }},
			{"Do+Resolve+read", func(g, i int) { o.Do(func() int { return guardedTouch(st) }); _ = o.Resolve(); _ = guardedRead(st) }},
			{"Called/Defined", func(g, i int) { _ = o.Called(); _ = o.Defined() }},
			{"Set", func(g, i int) { o.Set(func() int { return 7 }) }},
		}, func() {}
	}})
	subs = append(subs, c13Subject{"adt.Pool", func() ([]c13Driver, func()) {
		p := &adt.Pool[*guarded]{}
		p.SetConstructor(func() *guarded { return &guarded{} })
		p.SetCleanupHook(func(g *guarded) *guarded { g.n = 0; return g })
		p.FinalizeSetup()
		bufs, sl := adt.MakeBytesBufferPool(16), adt.DefaultBufferPool()
		return []c13Driver{
			{"Get+Put", func(g, i int) { x := p.Get(); guardedTouch(x); p.Put(x) }},
			{"Make", func(g, i int) { x := p.Make(); guardedTouch(x) }},
			{"Get", func(g, i int) { _ = p.Get() }},
			{"bytes.Buffer pool Get+Put", func(g, i int) { b := bufs.Get(); b.WriteString("x"); bufs.Put(b) }},
			{"byte slice pool Get+Put", func(g, i int) { b := sl.Get(); b = append(b, 1, 2, 3); sl.Put(b) }},
		}, func() {}
	}})
	// ---- synchronized dt.Set ----------------------------------------------------
	for _, ordered := range []bool{false, true} {
		ordered := ordered
		subs = append(subs, c13Subject{fmt.Sprintf("Set(synchronized,ordered=%v)", ordered), func() ([]c13Driver, func()) {
			mk := func() *dt.Set[int] {
				s := &dt.Set[int]{}
				s.Synchronize()
				if ordered {
					s.Order()
				}
				for i := 0; i < 6; i++ {
					s.Add(i)
				}
				return s
			}
			s, other := mk(), mk()
			return []c13Driver{
				{"Add", func(g, i int) { s.Add(i % 24) }},
				{"AddCheck", func(g, i int) { _ = s.AddCheck(i % 24) }},
				{"Delete", func(g, i int) { s.Delete(i % 24) }},
				{"DeleteCheck", func(g, i int) { _ = s.DeleteCheck(i % 24) }},
				{"Check", func(g, i int) { _ = s.Check(i % 24) }},
				{"Len", func(g, i int) { _ = s.Len() }},
				{"Iterator(full)", func(g, i int) {
					it := s.Iterator()
					for k := 0; k < 40 && it.Next(bg); k++ {
					}
					_ = it.Close()
				}},
				{"Producer.Next", func(g, i int) { _, _ = s.Producer()(bg) }},
				{"Equal", func(g, i int) { _ = s.Equal(other) }},
				{"MarshalJSON", func(g, i int) { _, _ = s.MarshalJSON() }},
				{"Populate", func(g, i int) { s.Populate(fun.SliceIterator([]int{i % 24, (i + 1) % 24})) }},
				{"Extend", func(g, i int) { s.Extend(other) }},
				{"SortQuick", func(g, i int) {
					if ordered {
						s.SortQuick(func(a, b int) bool { return a < b })
					} else {
						_ = s.Len()
					}
				}},
				{"SortMerge", func(g, i int) {
					if ordered {
						s.SortMerge(func(a, b int) bool { return a < b })
					} else {
						_ = s.Len()
					}
				}},
				{"UnmarshalJSON", func(g, i int) { _ = s.UnmarshalJSON([]byte(fmt.Sprintf("[%d,%d]", i%24, (i+5)%24))) }},
				{"Synchronize(again)", func(g, i int) { s.Synchronize(); s.Add(i % 24) }},
			}, func() {}
		}})
	}
	// ---- Lock / WithLock / Once / Limit wrappers -----------------------------------
	subs = append(subs, c13Subject{"wrappers", func() ([]c13Driver, func()) {
		mk := func() *guarded { return &guarded{} }
		type w struct {
			name string
			call func()
		}
		var ws []w
		{
			st := mk()
			f := fun.Worker(func(context.Context) error { guardedTouch(st); return nil }).Lock()
			ws = append(ws, w{"Worker.Lock", func() { _ = f(bg) }})
		}
		{
			st := mk()
			f := fun.Operation(func(context.Context) { guardedTouch(st) }).Lock()
			ws = append(ws, w{"Operation.Lock", func() { f(bg) }})
		}
		{
			st := mk()
			f := fun.Producer[int](func(context.Context) (int, error) { return guardedTouch(st), nil }).Lock()
			ws = append(ws, w{"Producer.Lock", func() { _, _ = f(bg) }})
		}
		{
			st := mk()
			f := fun.Processor[int](func(context.Context, int) error { guardedTouch(st); return nil }).Lock()
			ws = append(ws, w{"Processor.Lock", func() { _ = f(bg, 1) }})
		}
		{
			st := mk()
			f := fun.Handler[int](func(int) { guardedTouch(st) }).Lock()
			ws = append(ws, w{"Handler.Lock", func() { f(1) }})
		}
		{
			st := mk()
			f := fun.Future[int](func() int { return guardedTouch(st) }).Lock()
			ws = append(ws, w{"Future.Lock", func() { _ = f() }})
		}
		{
			st := mk()
			f := fun.Transform[int, int](func(context.Context, int) (int, error) { return guardedTouch(st), nil }).Lock()
			ws = append(ws, w{"Transform.Lock", func() { _, _ = f(bg, 1) }})
		}
		{
			st, mu := mk(), &sync.Mutex{}
			a := fun.Worker(func(context.Context) error { guardedTouch(st); return nil }).WithLock(mu)
			b := fun.Handler[int](func(int) { guardedTouch(st) }).WithLock(mu)
			c := fun.Future[int](func() int { return guardedTouch(st) }).WithLock(mu)
			ws = append(ws, w{"WithLock(shared mutex)", func() { _ = a(bg); b(1); _ = c() }})
		}
		{
			st := mk()
			f := fun.Worker(func(context.Context) error { guardedTouch(st); return nil }).Once()
			ws = append(ws, w{"Worker.Once+read", func() { _ = f(bg); _ = guardedRead(st) }})
		}
		{
			st := mk()
			f := fun.Operation(func(context.Context) { guardedTouch(st) }).Once()
			ws = append(ws, w{"Operation.Once+read", func() { f(bg); _ = guardedRead(st) }})
		}
		{
			st := mk()
			f := fun.Producer[int](func(context.Context) (int, error) { return guardedTouch(st), nil }).Once()
			ws = append(ws, w{"Producer.Once+read", func() { _, _ = f(bg); _ = guardedRead(st) }})
		}
		{
			st := mk()
			f := fun.Handler[int](func(int) { guardedTouch(st) }).Once()
			ws = append(ws, w{"Handler.Once+read", func() { f(1); _ = guardedRead(st) }})
		}
		{
			st := mk()
			f := fun.Future[int](func() int { return guardedTouch(st) }).Once()
			ws = append(ws, w{"Future.Once+read", func() { _ = f(); _ = guardedRead(st) }})
		}
		{
			st := mk()
			f := fun.Processor[int](func(context.Context, int) error { guardedTouch(st); return nil }).Once()
			ws = append(ws, w{"Processor.Once+read", func() { _ = f(bg, 1); _ = guardedRead(st) }})
		}
		{
			st := mk()
			f := fun.Worker(func(context.Context) error { guardedTouch(st); return nil }).Limit(3)
			ws = append(ws, w{"Worker.Limit", func() { _ = f(bg) }})
		}
		{
			st := mk()
			f := fun.Producer[int](func(context.Context) (int, error) { return guardedTouch(st), nil }).Limit(3)
			ws = append(ws, w{"Producer.Limit", func() { _, _ = f(bg) }})
		}
		{
			st := mk()
			f := fun.Future[int](func() int { return guardedTouch(st) }).Limit(2)
			ws = append(ws, w{"Future.Limit", func() { _ = f() }})
		}
		{
			st := mk()
			f := fun.Processor[int](func(context.Context, int) error { guardedTouch(st); return nil }).Limit(2)
			ws = append(ws, w{"Processor.Limit", func() { _ = f(bg, 1) }})
		}
		var out []c13Driver
		for _, x := range ws {
			x := x
			out = append(out, c13Driver{x.name, func(g, i int) { x.call() }})
		}
		return out, func() {}
	}})
	// ---- first use --------------------------------------------------------------
	// Lazily initialised state is written by whichever call comes first: a
	// fresh (zero-valued, or newly wrapped) object per step, first touched by
	// several goroutines at once. The n-th execution of a Limit wrapper and the
	// single execution of a Once wrapper also happen once per object, so these
	// get a fresh wrapper per step and a function that takes a moment.
	subs = append(subs, c13Subject{"first-use", func() ([]c13Driver, func()) {
		const slots = 1600
		type slot struct {
			arrivals atomic.Int32
			wg       fun.WaitGroup
			ec       erc.Collector
			m        adt.Map[int, int]
			once     adt.Once[int]
			set      *dt.Set[int]
			st       [5]guarded // one per wrapper: wrappers exclude their own callers only
			futLim   fun.Future[int]
			wrkLim   fun.Worker
			prdLim   fun.Producer[int]
			prdOnce  fun.Producer[int]
			wrkOnce  fun.Worker
		}
		ss := make([]*slot, slots)
		for k := range ss {
			sl := &slot{set: &dt.Set[int]{}}
			sl.set.Synchronize()
			slow := func(k int) int { v := guardedTouch(&sl.st[k]); kit.Yields(2); return v }
			sl.futLim = fun.Future[int](func() int { return slow(0) }).Limit(2)
			sl.wrkLim = fun.Worker(func(context.Context) error { slow(1); return nil }).Limit(2)
			sl.prdLim = fun.Producer[int](func(context.Context) (int, error) { return slow(2), nil }).Limit(2)
			sl.prdOnce = fun.Producer[int](func(context.Context) (int, error) { return slow(3), nil }).Once()
			sl.wrkOnce = fun.Worker(func(context.Context) error { slow(4); return nil }).Once()
			ss[k] = sl
		}
		// meet lets (at least) two goroutines reach step i together; the
		// atomic orders only what came before it
		meet := func(i int) *slot {
			sl := ss[i%slots]
			sl.arrivals.Add(1)
			for k := 0; k < 400 && sl.arrivals.Load() < 2; k++ {
				if k%40 == 39 {
					runtime.Gosched()
				}
			}
			return sl
		}
		return []c13Driver{
			{"wg: first Add+Done", func(g, i int) { sl := meet(i); sl.wg.Add(1); sl.wg.Done() }},
			{"wg: first Wait", func(g, i int) { sl := meet(i); c, cc := cancelSoon(i); sl.wg.Wait(c); cc() }},
			{"wg: first Launch", func(g, i int) { sl := meet(i); sl.wg.Launch(bg, func(context.Context) {}) }},
			{"wg: first Num/IsDone", func(g, i int) { sl := meet(i); _ = sl.wg.Num(); _ = sl.wg.IsDone() }},
			{"collector: first Add", func(g, i int) { sl := meet(i); sl.ec.Add(errors.New("x")) }},
			{"collector: first Resolve/Len", func(g, i int) { sl := meet(i); _ = sl.ec.Resolve(); _ = sl.ec.Len(); _ = sl.ec.HasErrors() }},
			{"collector: first Iterator", func(g, i int) {
				sl := meet(i)
				it := sl.ec.Iterator()
				for k := 0; k < 8 && it.Next(bg); k++ {
				}
			}},
			{"map: first Store", func(g, i int) { sl := meet(i); sl.m.Store(g, i) }},
			{"map: first Load/Len", func(g, i int) { sl := meet(i); _, _ = sl.m.Load(g); _ = sl.m.Len() }},
			{"map: first Get", func(g, i int) { sl := meet(i); _ = sl.m.Get(g % 2) }},
			{"once: first Do", func(g, i int) { sl := meet(i); sl.once.Do(func() int { return i }) }},
			{"once: first Resolve after Do", func(g, i int) { sl := meet(i); sl.once.Do(func() int { return i }); _ = sl.once.Resolve() }},
			{"set: first Add", func(g, i int) { sl := meet(i); sl.set.Add(g) }},
			{"set: first Check/Len", func(g, i int) { sl := meet(i); _ = sl.set.Check(g); _ = sl.set.Len() }},
			{"set: first Iterator", func(g, i int) {
				sl := meet(i)
				it := sl.set.Iterator()
				for k := 0; k < 8 && it.Next(bg); k++ {
				}
				_ = it.Close()
			}},
			{"limit: Future.Limit(2) fresh x2", func(g, i int) { sl := meet(i); _ = sl.futLim(); _ = sl.futLim() }},
			{"limit: Worker.Limit(2) fresh x2", func(g, i int) { sl := meet(i); _ = sl.wrkLim(bg); _ = sl.wrkLim(bg) }},
			{"limit: Producer.Limit(2) fresh x2", func(g, i int) { sl := meet(i); _, _ = sl.prdLim(bg); _, _ = sl.prdLim(bg) }},
			{"oncewrap: Producer.Once fresh", func(g, i int) { sl := meet(i); _, _ = sl.prdOnce(bg); _ = guardedRead(&sl.st[3]) }},
			{"oncewrap: Worker.Once fresh", func(g, i int) { sl := meet(i); _ = sl.wrkOnce(bg); _ = guardedRead(&sl.st[4]) }},
		}, func() {}
	}})
	// ---- last use ----------------------------------------------------------------
	// Shutdown paths run once per object too: a fresh broker per step (over its
	// own one-slot Deque, unlimited Queue, or channel), with a subscriber that
	// does not read and messages in flight, is ended in two ways at once.
	subs = append(subs, c13Subject{"last-use", func() ([]c13Driver, func()) {
		const slots = 240
		type slot struct {
			arrivals atomic.Int32
			ctx      context.Context
			cancel   context.CancelFunc
			b        *pubsub.Broker[int]
			sub      chan int
			closeC   func()
		}
		ss := make([]*slot, slots)
		for k := range ss {
			sl := &slot{}
			sl.ctx, sl.cancel = context.WithCancel(bg)
			opts := pubsub.BrokerOptions{WorkerPoolSize: 1 + k%2}
			switch k % 3 {
			case 0:
				dq, _ := pubsub.NewDeque[int](pubsub.DequeOptions{Capacity: 1})
				sl.b = pubsub.NewDequeBroker[int](sl.ctx, dq, opts)
				sl.closeC = func() { _ = dq.Close() }
			case 1:
				q := pubsub.NewUnlimitedQueue[int]()
				sl.b = pubsub.NewQueueBroker[int](sl.ctx, q, opts)
				sl.closeC = func() { _ = q.Close() }
			default:
				sl.b = pubsub.NewBroker[int](sl.ctx, opts)
				sl.closeC = sl.b.Stop
			}
			sl.sub = sl.b.Subscribe(sl.ctx)
			for m := 0; m < 3; m++ {
				c, cc := cancelSoon(m)
				sl.b.Publish(c, m)
				cc()
			}
			ss[k] = sl
		}
		meet := func(i int) *slot {
			sl := ss[i%slots]
			sl.arrivals.Add(1)
			for k := 0; k < 400 && sl.arrivals.Load() < 2; k++ {
				if k%40 == 39 {
					runtime.Gosched()
				}
			}
			return sl
		}
		return []c13Driver{
				{"end: Stop", func(g, i int) { meet(i).b.Stop() }},
				{"end: close the broker's container", func(g, i int) { meet(i).closeC() }},
				{"end: cancel the broker's context", func(g, i int) { meet(i).cancel() }},
				{"end: Publish", func(g, i int) { sl := meet(i); c, cc := cancelSoon(i); sl.b.Publish(c, i); cc() }},
				{"end: Wait(cancelled soon)", func(g, i int) { sl := meet(i); c, cc := cancelSoon(i); sl.b.Wait(c); cc() }},
				{"end: Stats", func(g, i int) { sl := meet(i); c, cc := cancelSoon(i); _ = sl.b.Stats(c); cc() }},
				{"end: Unsubscribe", func(g, i int) { sl := meet(i); c, cc := cancelSoon(i); sl.b.Unsubscribe(c, sl.sub); cc() }},
				{"end: close container then Stop", func(g, i int) { sl := meet(i); sl.closeC(); sl.b.Stop() }},
			}, func() {
				for _, sl := range ss {
					sl.closeC()
					sl.b.Stop()
					sl.cancel()
				}
				for _, sl := range ss {
					c, cc := cancelSoon(19)
					sl.b.Wait(c)
					cc()
				}
			}
	}})
	return subs
}

func c13Group(name string) string {
	if k := strings.IndexByte(name, ':'); k >= 0 {
		return name[:k]
	}
	return name
}

func runC13(r *kit.Run) {
	iters := r.Scale(300, 1500)
	reps := r.Scale(1, 4)
	subs := c13Subjects()
	pairIdx := int64(0)
	for _, sub := range subs {
		drivers, td := sub.setup()
		td()
		nd := len(drivers)
		selfOnly := sub.name == "wrappers"
		for a := 0; a < nd; a++ {
			for b := a; b < nd; b++ {
				if selfOnly && a != b {
					continue
				}
				if (sub.name == "first-use" || sub.name == "last-use") && c13Group(drivers[a].name) != c13Group(drivers[b].name) {
					continue
				}
				for rep := 0; rep < reps; rep++ {
					pairIdx++
					if !r.Mine(pairIdx) {
						continue
					}
					c13Pair(r, pairIdx, sub, a, b, iters)
				}
			}
		}
	}
}

type interval struct{ s, e int64 }

func c13Pair(r *kit.Run, idx int64, sub c13Subject, a, b, iters int) {
	drivers, teardown := sub.setup()
	da, db := drivers[a], drivers[b]
	G := 2 + int(idx%3) // 2..4 goroutines
	r.Eval()
	r.Current(idx, fmt.Sprintf("C13 %s: %s || %s", sub.name, da.name, db.name))
	ivs := make([][]interval, G)
	var panicMsg atomic.Value
	bar := kit.NewBarrier(G)
	var wg sync.WaitGroup
	t0 := time.Now()
	for g := 0; g < G; g++ {
		wg.Add(1)
		go func(g int) {
			defer wg.Done()
			defer func() {
				if p := recover(); p != nil {
					panicMsg.Store(fmt.Sprint(p))
				}
			}()
			d := da
			if g%2 == 1 {
				d = db
			}
			local := make([]interval, 0, iters)
			bar.Wait()
			for i := 0; i < iters; i++ {
				s := int64(time.Since(t0))
				d.call(g, i)
				local = append(local, interval{s, int64(time.Since(t0))})
			}
			ivs[g] = local
		}(g)
	}
	done := make(chan struct{})
	go func() { wg.Wait(); close(done) }()
	if !kit.WaitUntil(2*c14Watchdog, func() bool { return isClosed(done) }) {
		r.Count(fmt.Sprintf("pair released only by its teardown: %s: %s || %s", sub.name, da.name, db.name), 1)
		teardown()
		if !kit.WaitUntil(c14Watchdog, func() bool { return isClosed(done) }) {
			r.Inconclusive(fmt.Sprintf("C13 pair %s: %s || %s did not finish", sub.name, da.name, db.name))
			return
		}
	} else {
		teardown()
	}
	if p := panicMsg.Load(); p != nil {
		r.Violation("C13/"+sub.name+"/panic", idx, map[string]any{"type": sub.name, "methods": []string{da.name, db.name}}, p.(string), nil)
		return
	}
	// how many call intervals of the two sides really overlapped
	ov := 0
	for g1 := 0; g1 < G; g1++ {
		for g2 := g1 + 1; g2 < G; g2++ {
			if a != b && g1%2 == g2%2 {
				continue
			}
			ov += countOverlaps(ivs[g1], ivs[g2])
		}
	}
	key := fmt.Sprintf("%s: %s || %s", sub.name, da.name, db.name)
	r.Count("call_interval_overlaps", int64(ov))
	r.Count("pairs_run", 1)
	if ov > 0 {
		r.Distinct(key)
	} else {
		r.Count("pairs_without_observed_overlap", 1)
	}
	if r.WantSample() {
		r.Sample(map[string]any{"type": sub.name, "methods": []string{da.name, db.name}, "goroutines": G, "iterations_each": iters, "overlapping_call_intervals": ov})
	}
}

func countOverlaps(x, y []interval) int {
	sort.Slice(x, func(i, j int) bool { return x[i].s < x[j].s })
	sort.Slice(y, func(i, j int) bool { return y[i].s < y[j].s })
	n, j := 0, 0
	for _, iv := range x {
		for j < len(y) && y[j].e < iv.s {
			j++
		}
		for k := j; k < len(y) && y[k].s <= iv.e; k++ {
			n++
		}
	}
	return n
}
