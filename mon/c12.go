package mon

import (
	"context"
	"errors"
	"fmt"
	"io"
	"math/rand/v2"
	"reflect"
	"sort"
	"strings"
	"sync"
	"sync/atomic"
	"time"

	"github.com/tychoish/fun"
	"github.com/tychoish/fun/erc"
	"github.com/tychoish/fun/ers"

	"verif/kit"
)

// C12 — error aggregation is lossless and errors.Is/As/Unwind
// consistent. A generated tree of Join / Wrap / %w / errors.Join /
// Stack-in-Stack / ParsePanic applications is evaluated by the library
// and, independently, by a multiset-of-constituents model written from
// the documentation.

func init() { register("C12", runC12) }

type structErr struct{ Code int }

func (e structErr) Error() string { return fmt.Sprintf("structErr(%d)", e.Code) }

// sliceErr is an error of an uncomparable type (like the validation
// error lists of popular libraries): == on two of them panics, errors.Is
// answers false for them.
type sliceErr []string

func (e sliceErr) Error() string { return "sliceErr" + fmt.Sprint([]string(e)) }

// holesErr is a caller-owned multi-error with one slot per worker: some
// slots stay nil, and Unwrap hands out the slice it keeps.
type holesErr struct{ errs []error }

func (h *holesErr) Error() string   { return fmt.Sprintf("holesErr(%d slots)", len(h.errs)) }
func (h *holesErr) Unwrap() []error { return h.errs }

// unwinderErr is a multi-error of another library: it offers
// Unwind() []error (the interface ers prefers), its slice has unset slots
// and nested aggregates.
type unwinderErr struct{ errs []error }

func (u *unwinderErr) Error() string   { return fmt.Sprintf("unwinderErr(%d slots)", len(u.errs)) }
func (u *unwinderErr) Unwind() []error { return u.errs }

type holesSnap struct {
	h    *holesErr
	want []error
}

// sameValue compares two error values without tripping over
// uncomparable dynamic types.
func sameValue(a, b error) bool {
	if a == nil || b == nil {
		return a == nil && b == nil
	}
	if reflect.TypeOf(a) != reflect.TypeOf(b) {
		return false
	}
	if reflect.TypeOf(a).Comparable() {
		return a == b
	}
	return errKey(a) == errKey(b)
}

type typedErr struct {
	ID  int
	Msg string
}

func (e *typedErr) Error() string { return fmt.Sprintf("typedErr#%d(%s)", e.ID, e.Msg) }

// enode is a node of the generated error expression.
type enode struct {
	kind string // leaf-const leaf-ptr leaf-struct leaf-typed nil join wrap fmtw stdjoin panic stack
	kids []*enode
	leaf error
	ann  string
}

type eresult struct {
	err    error
	flat   []error // expected constituents of err when it is pushed onto a stack, in push order
	leaves []error // every non-nil leaf that must be found by errors.Is
	typed  []*typedErr
	plain  bool // flat consists only of plain leaves (no wrappers), flat order is meaningful
	desc   string
	holes  []holesSnap // caller-owned multi-errors in the expression and what they held
}

func c12Gen(rng *rand.Rand, depth int, ctr *int) *enode {
	if depth <= 0 || rng.IntN(10) < 3 {
		*ctr++
		switch rng.IntN(10) {
		case 9:
			return &enode{kind: "leaf-slice", leaf: sliceErr{fmt.Sprintf("slice-%d", *ctr)}}
		case 0:
			return &enode{kind: "nil"}
		case 1, 2:
			return &enode{kind: "leaf-const", leaf: ers.Error(fmt.Sprintf("const-%d", *ctr))}
		case 3, 4:
			return &enode{kind: "leaf-ptr", leaf: errors.New(fmt.Sprintf("ptr-%d", *ctr))}
		case 5:
			return &enode{kind: "leaf-struct", leaf: structErr{*ctr}}
		case 6:
			return &enode{kind: "leaf-typed", leaf: &typedErr{*ctr, "t"}}
		case 7:
			return &enode{kind: "leaf-sentinel", leaf: []error{io.EOF, context.Canceled, ers.ErrInvalidInput, ers.ErrLimitExceeded}[rng.IntN(4)]}
		default:
			return &enode{kind: "nil"}
		}
	}
	kinds := []string{"join", "join", "join", "wrap", "fmtw", "stdjoin", "panic", "stack", "panic-string", "unwrap", "holes", "unwinder", "wrapf", "recovercall", "withtime"}
	k := kinds[rng.IntN(len(kinds))]
	n := &enode{kind: k}
	nk := 1
	switch k {
	case "join", "stdjoin", "stack", "unwinder":
		nk = rng.IntN(5) // 0..4
	case "holes":
		nk = 2 + rng.IntN(5)
	}
	for i := 0; i < nk; i++ {
		n.kids = append(n.kids, c12Gen(rng, depth-1, ctr))
	}
	*ctr++
	n.ann = fmt.Sprintf("ann-%d", *ctr)
	return n
}

// eval applies the library operations bottom-up and computes the
// expectation alongside.
func (n *enode) eval() eresult {
	switch n.kind {
	case "nil":
		return eresult{plain: true, desc: "nil"}
	case "leaf-const", "leaf-ptr", "leaf-struct", "leaf-sentinel":
		return eresult{err: n.leaf, flat: []error{n.leaf}, leaves: []error{n.leaf}, plain: true, desc: n.leaf.Error()}
	case "leaf-slice":
		// a constituent, but not something errors.Is can be asked about
		return eresult{err: n.leaf, flat: []error{n.leaf}, plain: true, desc: n.leaf.Error()}
	case "leaf-typed":
		return eresult{err: n.leaf, flat: []error{n.leaf}, leaves: []error{n.leaf}, typed: []*typedErr{n.leaf.(*typedErr)}, plain: true, desc: n.leaf.Error()}
	}
	var kids []eresult
	var kerrs []error
	var descs []string
	out := eresult{plain: true}
	for _, k := range n.kids {
		r := k.eval()
		kids = append(kids, r)
		kerrs = append(kerrs, r.err)
		descs = append(descs, r.desc)
		out.leaves = append(out.leaves, r.leaves...)
		out.typed = append(out.typed, r.typed...)
		out.holes = append(out.holes, r.holes...)
	}
	concat := func() {
		for _, r := range kids {
			out.flat = append(out.flat, r.flat...)
			out.plain = out.plain && r.plain
		}
	}
	switch n.kind {
	case "unwrap":
		// errors.Unwrap of an aggregate is the aggregate without its most
		// recent constituent: an interior stack node, itself a valid error
		r := kids[0]
		st, isStack := r.err.(*ers.Stack)
		if !isStack || len(r.flat) < 2 {
			return r
		}
		head := st.Unwind()[0]
		if strings.HasPrefix(errKey(head), "wrap:") {
			return r // the inner leaves of a %w wrapper are not tracked separately
		}
		hk := errKey(head)
		if _, isConst := head.(ers.Error); !isConst {
			for _, f := range r.flat {
				if a, ok := f.(annotationMarker); ok && string(a) == head.Error() {
					hk = errKey(a)
				}
			}
		}
		dropped := false
		out.plain = r.plain
		for _, f := range r.flat {
			if !dropped && errKey(f) == hk {
				dropped = true
				continue
			}
			out.flat = append(out.flat, f)
		}
		if !dropped {
			return r
		}
		stillThere := func(l error) bool {
			for _, f := range out.flat {
				if errKey(f) == errKey(l) {
					return true
				}
			}
			return errKey(l) != hk
		}
		out.leaves, out.typed = nil, nil
		for _, l := range r.leaves {
			if stillThere(l) {
				out.leaves = append(out.leaves, l)
			}
		}
		for _, t := range r.typed {
			if stillThere(t) {
				out.typed = append(out.typed, t)
			}
		}
		out.err = errors.Unwrap(st)
		out.desc = "Unwrap(" + r.desc + ")"
		return out
	case "join":
		out.err = ers.Join(kerrs...)
		concat()
		out.desc = "Join(" + strings.Join(descs, ", ") + ")"
	case "unwinder":
		// the operands reach Join inside a foreign multi-error, nil slots and
		// nested aggregates included: the same constituents as a plain Join
		out.err = ers.Join(&unwinderErr{errs: append([]error(nil), kerrs...)})
		concat()
		out.desc = "Join(unwinder[" + strings.Join(descs, ", ") + "])"
	case "holes":
		concat()
		if len(out.flat) == 0 {
			out.desc = "nil"
			return out
		}
		h := &holesErr{errs: append([]error(nil), kerrs...)}
		out.err = h
		out.holes = append(out.holes, holesSnap{h: h, want: append([]error(nil), kerrs...)})
		out.desc = "holes[" + strings.Join(descs, ", ") + "]"
	case "stdjoin":
		out.err = errors.Join(kerrs...)
		concat()
		out.desc = "errors.Join(" + strings.Join(descs, ", ") + ")"
	case "stack":
		st := &ers.Stack{}
		st.Add(kerrs...)
		concat()
		if len(out.flat) == 0 {
			// an empty *Stack is not used as an operand (it is a non-nil
			// value that reports Ok): stands for nil
			out.err = nil
		} else {
			out.err = st
		}
		out.desc = "Stack{" + strings.Join(descs, ", ") + "}"
	case "wrap":
		out.err = ers.Wrap(kerrs[0], n.ann)
		concat()
		if len(out.flat) > 0 {
			// the annotation is a fresh error value: it is a constituent
			// but nothing the caller can name
			out.flat = append(out.flat, annotationMarker(n.ann))
		}
		out.desc = "Wrap(" + descs[0] + ")"
	case "wrapf":
		out.err = ers.Wrapf(kerrs[0], "%s-%d", n.ann, 7)
		concat()
		if len(out.flat) > 0 {
			out.flat = append(out.flat, annotationMarker(n.ann+"-7"))
		}
		out.desc = "Wrapf(" + descs[0] + ")"
	case "recovercall":
		// a panic with the operand, recovered by the library's own wrapper
		switch k := len(n.ann) % 3; {
		case kerrs[0] == nil:
			out.err = ers.WithRecoverCall(func() {})
		case k == 0:
			out.err = ers.WithRecoverCall(func() { panic(kerrs[0]) })
		case k == 1:
			out.err = ers.WrapRecoverCall(func() { panic(kerrs[0]) })()
		default:
			_, out.err = ers.WithRecoverDo(func() int { panic(kerrs[0]) })
		}
		concat()
		if len(out.flat) > 0 {
			out.flat = append(out.flat, ers.ErrRecoveredPanic)
			out.leaves = append(out.leaves, ers.ErrRecoveredPanic)
		}
		out.desc = "WithRecoverCall(panic(" + descs[0] + "))"
	case "withtime":
		if kerrs[0] == nil {
			if ers.WithTime(nil) != nil {
				out.err = ers.WithTime(nil)
			}
			out.desc = "nil"
			return out
		}
		w := ers.WithTime(kerrs[0])
		out.err = w
		out.flat = []error{w}
		out.plain = false
		out.desc = "WithTime(" + descs[0] + ")"
	case "fmtw":
		if kerrs[0] == nil {
			out.desc = "nil"
			return out
		}
		w := fmt.Errorf("%s: %w", n.ann, kerrs[0])
		out.err = w
		out.flat = []error{w}
		out.plain = false
		out.desc = "%w(" + descs[0] + ")"
	case "panic":
		var r any
		if kerrs[0] != nil {
			r = kerrs[0]
		}
		out.err = ers.ParsePanic(r)
		concat()
		if len(out.flat) > 0 {
			out.flat = append(out.flat, ers.ErrRecoveredPanic)
			out.leaves = append(out.leaves, ers.ErrRecoveredPanic)
		}
		out.desc = "ParsePanic(" + descs[0] + ")"
	case "panic-string":
		out.err = ers.ParsePanic(n.ann)
		out.flat = []error{ers.Error(n.ann), ers.ErrRecoveredPanic}
		out.leaves = []error{ers.Error(n.ann), ers.ErrRecoveredPanic}
		out.typed = nil
		out.desc = "ParsePanic(\"" + n.ann + "\")"
	}
	return out
}

type annotationMarker string

func (a annotationMarker) Error() string { return string(a) }

// key renders a constituent for multiset comparison: identity for
// pointers, value for comparable values, text for annotations.
func errKey(e error) string {
	switch x := e.(type) {
	case annotationMarker:
		return "ann:" + string(x)
	case ers.Error:
		return "const:" + string(x)
	case structErr:
		return fmt.Sprintf("struct:%d", x.Code)
	}
	if _, ok := e.(interface{ Unwrap() error }); ok {
		return fmt.Sprintf("wrap:%p", e)
	}
	if _, ok := e.(interface{ Time() time.Time }); ok {
		return fmt.Sprintf("wrap:%p", e) // ers.WithTime: a wrapper that answers Is / As for what it holds
	}
	return fmt.Sprintf("ptr:%p:%s", e, e.Error())
}

func multiset(errs []error, annotations bool) []string {
	out := make([]string, 0, len(errs))
	for _, e := range errs {
		k := errKey(e)
		out = append(out, k)
	}
	sort.Strings(out)
	return out
}

// normalize maps the fresh errors.New(annotation) values produced by
// Wrap to annotation markers so that they compare by text.
func normalize(errs []error, anns map[string]bool) []error {
	out := make([]error, len(errs))
	for i, e := range errs {
		out[i] = e
		if anns[e.Error()] {
			if _, isConst := e.(ers.Error); !isConst {
				out[i] = annotationMarker(e.Error())
			}
		}
	}
	return out
}

func runC12(r *kit.Run) {
	n := int64(r.Scale(50000, 8000000))
	if r.Build != "plain" {
		n /= 20
	}
	unrelated := []error{ers.Error("unrelated-sentinel"), errors.New("unrelated-ptr"), structErr{-7}, io.ErrUnexpectedEOF, ers.ErrImmutabilityViolation, sliceErr{"unrelated"}}
	for i := int64(0); i < n && !r.Stopped(); i++ {
		if !r.Mine(i) {
			continue
		}
		rng := r.Rng("tree", i)
		ctr := 0
		root := &enode{kind: "join", ann: "root"}
		if rng.IntN(4) == 0 {
			root.kind = "wrap"
			root.kids = []*enode{c12Gen(rng, 4, &ctr)}
		} else {
			for k := rng.IntN(4); k >= 0; k-- {
				root.kids = append(root.kids, c12Gen(rng, 4, &ctr))
			}
		}
		var res eresult
		panicked, pv, pst := kit.Guard(func() { res = root.eval() })
		r.Eval()
		viol := func(kind, detail string) {
			r.Violation("C12/tree/"+kind, i, map[string]any{"expr": res.desc}, detail, nil)
		}
		if panicked {
			viol("panic", fmt.Sprintf("panic: %v\n%s", pv, clipS(pst, 1200)))
			continue
		}
		anns := map[string]bool{}
		for _, e := range res.flat {
			if a, ok := e.(annotationMarker); ok {
				anns[string(a)] = true
			}
		}
		// nil exactly when nothing non-nil was supplied
		if (res.err == nil) != (len(res.flat) == 0) {
			viol("nil-iff-empty", fmt.Sprintf("result nil=%v but %d constituents were supplied", res.err == nil, len(res.flat)))
			continue
		}
		if res.err == nil {
			if len(root.kids) > 1 {
				r.Distinct("all-nil|" + shapeOf(root))
			}
			continue
		}
		// Join of a single plain error returns it
		_, onlyAnnotation := firstOr(res.flat).(annotationMarker)
		if len(res.flat) == 1 && res.plain && !onlyAnnotation {
			same, cmpPanic := false, false
			func() {
				defer func() {
					if recover() != nil {
						cmpPanic = true
					}
				}()
				same = sameValue(res.err, res.flat[0])
			}()
			if !same || cmpPanic {
				viol("single-not-identity", fmt.Sprintf("aggregation of the single error %v returned %T %v", res.flat[0], res.err, res.err))
				continue
			}
		}
		bad := false
		for _, l := range res.leaves {
			if !errors.Is(res.err, l) {
				viol("is-lost", fmt.Sprintf("errors.Is(result, %v) is false for a supplied constituent", l))
				bad = true
				break
			}
		}
		if bad {
			continue
		}
		for _, u := range unrelated {
			var is bool
			if p, pv, _ := kit.Guard(func() { is = errors.Is(res.err, u) }); p {
				viol("is-panics", fmt.Sprintf("errors.Is(result, %T %v) panicked: %v", u, u, pv))
				bad = true
				break
			}
			if is {
				viol("is-invented", fmt.Sprintf("errors.Is(result, %v) is true for an error that was never supplied", u))
				bad = true
				break
			}
		}
		if bad {
			continue
		}
		var te *typedErr
		if got := errors.As(res.err, &te); got != (len(res.typed) > 0) {
			viol("as-mismatch", fmt.Sprintf("errors.As(*typedErr)=%v but %d typed errors were supplied", got, len(res.typed)))
			continue
		} else if got {
			found := false
			for _, t := range res.typed {
				if t == te {
					found = true
				}
			}
			if !found {
				viol("as-invented", "errors.As produced a typed error that was not supplied")
				continue
			}
		}
		var se structErr
		wantStruct := false
		for _, l := range res.leaves {
			if _, ok := l.(structErr); ok {
				wantStruct = true
			}
		}
		if got := errors.As(res.err, &se); got != wantStruct {
			viol("as-mismatch", fmt.Sprintf("errors.As(structErr)=%v, supplied=%v", got, wantStruct))
			continue
		}
		// Unwind lists each constituent exactly once
		uw := ers.Unwind(res.err)
		if _, isStack := res.err.(*ers.Stack); isStack {
			got := multiset(normalize(uw, anns), true)
			want := multiset(res.flat, true)
			if strings.Join(got, "|") != strings.Join(want, "|") {
				viol("unwind-multiset", fmt.Sprintf("Unwind lists %v, supplied constituents %v", got, want))
				continue
			}
			if res.plain && flatJoinOfLeaves(root) {
				// most recent first
				nu := normalize(uw, anns)
				okOrder := len(nu) == len(res.flat)
				for k := range nu {
					if okOrder && errKey(nu[k]) != errKey(res.flat[len(res.flat)-1-k]) {
						okOrder = false
					}
				}
				if !okOrder {
					viol("unwind-order", fmt.Sprintf("Unwind of a flat join is %v, expected most recent first of %v", keysOf(nu), keysOf(res.flat)))
					continue
				}
				r.Count("flat_join_order_checked", 1)
			}
			if st := res.err.(*ers.Stack); st.Len() != len(res.flat) {
				viol("len-mismatch", fmt.Sprintf("Stack.Len()=%d, %d constituents supplied", st.Len(), len(res.flat)))
				continue
			}
		} else if _, isHoles := res.err.(*holesErr); isHoles {
			// a caller-owned multi-error: Unwind lists its constituents
		} else if len(uw) == 0 || !sameValue(uw[0], res.err) {
			viol("unwind-single", fmt.Sprintf("Unwind of a single error does not start with it: %v", uw))
			continue
		}
		// caller-owned multi-errors are inspected, never modified: unwinding
		// one (twice) lists its non-nil slots and leaves it as it was
		for _, hs := range res.holes {
			u1 := ers.Unwind(hs.h)
			u2 := ers.Unwind(hs.h)
			if len(u1) != len(u2) {
				viol("unwind-not-repeatable", fmt.Sprintf("two Unwind calls on the same multi-error list %d and %d errors", len(u1), len(u2)))
				bad = true
				break
			}
			same := len(hs.h.errs) == len(hs.want)
			for k := 0; same && k < len(hs.want); k++ {
				same = sameValue(hs.h.errs[k], hs.want[k])
			}
			if !same {
				viol("operand-mutated", fmt.Sprintf("a multi-error passed to the library held %v and now holds %v", keysOfNil(hs.want), keysOfNil(hs.h.errs)))
				bad = true
				break
			}
		}
		if bad {
			continue
		}
		if len(res.flat) >= 2 {
			r.Distinct(shapeOf(root))
		}
		if r.WantSample() && len(res.flat) >= 3 {
			r.Sample(map[string]any{"expr": res.desc, "constituents": keysOf(res.flat), "result": res.err.Error()})
		}
	}
	// concurrent collector
	nc := int64(r.Scale(300, 20000))
	if r.Build != "plain" {
		nc /= 4
	}
	for i := int64(0); i < nc && !r.Stopped(); i++ {
		if !r.Mine(i) {
			continue
		}
		c12Collector(r, i, r.Rng("collector", i))
	}
	nss := int64(r.Scale(3000, 300000))
	if r.Build != "plain" {
		nss /= 20
	}
	for i := int64(0); i < nss && !r.Stopped(); i++ {
		if !r.Mine(i) {
			continue
		}
		c12Session(r, i, r.Rng("session", i))
	}
	nt := int64(r.Scale(40, 2000))
	if r.Build != "plain" {
		nt /= 4
	}
	for i := int64(0); i < nt && !r.Stopped(); i++ {
		if !r.Mine(i) {
			continue
		}
		c12IterPrefix(r, i, r.Rng("iterprefix", i))
	}
}

type seqErr int

func (e seqErr) Error() string { return fmt.Sprintf("seq#%d", int(e)) }

// c12IterPrefix: adders push numbered errors as fast as they can while
// readers keep taking Collector.Iterator() and reading its first items.
// Each adder's numbers increase, so in a "most recent first, each
// exactly once" iterator the items of one adder are strictly
// descending, and the newest item of an adder is not older than what
// that adder had completed before Iterator() was called.
func c12IterPrefix(r *kit.Run, idx int64, rng *rand.Rand) {
	adders := 1 + rng.IntN(2)
	readers := 2 + rng.IntN(5)
	perAdder := 1500 + rng.IntN(3000)
	prefix := 2 + rng.IntN(5)
	procs := kit.ProcsFor(idx)
	if procs < 2 {
		procs = 2
	}
	desc := map[string]any{"adders": adders, "readers": readers, "adds_per_adder": perAdder, "prefix_read": prefix, "gomaxprocs": procs}
	ec := &erc.Collector{}
	done := make([]atomic.Int64, adders) // number of completed Adds per adder
	var stop atomic.Bool
	var mu sync.Mutex
	var problem string
	note := func(s string) {
		mu.Lock()
		if problem == "" {
			problem = s
		}
		mu.Unlock()
		stop.Store(true)
	}
	var iterations atomic.Int64
	r.Eval()
	kit.WithProcs(procs, func() {
		var awg, rwg sync.WaitGroup
		for k := 0; k < readers; k++ {
			rwg.Add(1)
			go func() {
				defer rwg.Done()
				defer func() {
					if p := recover(); p != nil {
						note(fmt.Sprintf("panic in Iterator reader: %v", p))
					}
				}()
				ctx := context.Background()
				completed := make([]int64, adders)
				for !stop.Load() {
					for a := range completed {
						completed[a] = done[a].Load()
					}
					it := ec.Iterator()
					last := make([]int64, adders)
					var got []int64
					for k := 0; k < prefix && it.Next(ctx); k++ {
						se, ok := it.Value().(seqErr)
						if !ok {
							note(fmt.Sprintf("Iterator yields %v, which was never added", it.Value()))
							return
						}
						a, seq := int(se)%adders, int64(se)/int64(adders)
						got = append(got, int64(se))
						if last[a] == 0 {
							if seq < completed[a] {
								note(fmt.Sprintf("Iterator taken after adder %d had completed %d Adds starts that adder at #%d: items %v", a, completed[a], seq, got))
								return
							}
						} else if seq >= last[a] {
							note(fmt.Sprintf("Iterator yields adder %d's #%d after its #%d (duplicate or not most-recent-first): items %v", a, seq, last[a], got))
							return
						}
						last[a] = seq
					}
					iterations.Add(1)
				}
			}()
		}
		for a := 0; a < adders; a++ {
			awg.Add(1)
			go func(a int) {
				defer awg.Done()
				for j := 1; j <= perAdder && !stop.Load(); j++ {
					ec.Add(seqErr(j*adders + a))
					done[a].Store(int64(j))
				}
			}(a)
		}
		awg.Wait()
		stop.Store(true)
		rwg.Wait()
	})
	r.Count("iterprefix_iterators_checked", iterations.Load())
	if problem != "" {
		r.Violation("C12/Collector/iterator-during-add", idx, desc, problem, nil)
		return
	}
	if ec.Len() != adders*perAdder {
		r.Violation("C12/Collector/len", idx, desc, fmt.Sprintf("Len()=%d after %d Adds", ec.Len(), adders*perAdder), nil)
		return
	}
	if iterations.Load() > 10 {
		r.Distinct(fmt.Sprintf("iterprefix|a=%d|r=%d|p=%d", adders, readers, procs))
	}
}

func keysOfNil(errs []error) []string {
	out := make([]string, len(errs))
	for i, e := range errs {
		if e == nil {
			out[i] = "nil"
		} else {
			out[i] = errKey(e)
		}
	}
	return out
}

func keysOf(errs []error) []string {
	out := make([]string, len(errs))
	for i, e := range errs {
		out[i] = errKey(e)
	}
	return out
}

func flatJoinOfLeaves(root *enode) bool {
	if root.kind != "join" {
		return false
	}
	for _, k := range root.kids {
		if !strings.HasPrefix(k.kind, "leaf") && k.kind != "nil" {
			return false
		}
	}
	return true
}

func shapeOf(n *enode) string {
	if len(n.kids) == 0 {
		if n.kind == "nil" {
			return "0"
		}
		if n.kind == "panic-string" {
			return "ps"
		}
		return "L"
	}
	parts := make([]string, len(n.kids))
	for i, k := range n.kids {
		parts[i] = shapeOf(k)
	}
	return n.kind[:2] + "(" + strings.Join(parts, "") + ")"
}

func c12Collector(r *kit.Run, idx int64, rng *rand.Rand) {
	G := 2 + rng.IntN(7)
	per := 1 + rng.IntN(12)
	ec := &erc.Collector{}
	procs := kit.ProcsFor(idx)
	type added struct {
		err   error
		count int
	}
	plans := make([][]int, G) // 0 nil, 1 single, 2 join-of-two, 3 wrapped
	for g := range plans {
		for j := 0; j < per; j++ {
			plans[g] = append(plans[g], rng.IntN(4))
		}
	}
	var mu sync.Mutex
	var all []error
	total := 0
	var problem string
	note := func(s string) {
		mu.Lock()
		if problem == "" {
			problem = s
		}
		mu.Unlock()
	}
	// an iterator taken at any moment yields each constituent added so far
	// exactly once, most recent first: no duplicate, nothing that completed
	// before the call is missing, and the constituents of one goroutine
	// come newest first
	origin := map[error][2]int{}
	var tops []error // what the iterator yields for the Adds that have returned
	register := func(g, j int, errs ...error) {
		mu.Lock()
		for _, e := range errs {
			origin[e] = [2]int{g, j}
		}
		mu.Unlock()
	}
	checkIter := func() int {
		mu.Lock()
		before := append([]error(nil), tops...)
		mu.Unlock()
		it := ec.Iterator()
		seen := map[error]int{}
		var order []error
		for it.Next(context.Background()) {
			e := it.Value()
			seen[e]++
			order = append(order, e)
			if len(order) > G*per*2+8 {
				note("Iterator yields more items than were ever added")
				return len(order)
			}
		}
		mu.Lock()
		defer mu.Unlock()
		lastJ := map[int]int{}
		for _, e := range order {
			if seen[e] > 1 {
				if problem == "" {
					problem = fmt.Sprintf("Iterator taken during concurrent Adds yields %v %d times (%d items)", e, seen[e], len(order))
				}
				return len(order)
			}
			o, ok := origin[e]
			if !ok {
				if problem == "" {
					problem = fmt.Sprintf("Iterator yields %v, which was never added", e)
				}
				return len(order)
			}
			if lj, ok := lastJ[o[0]]; ok && o[1] > lj {
				if problem == "" {
					problem = fmt.Sprintf("Iterator yields goroutine %d's add #%d after its add #%d: not most recent first", o[0], o[1], lj)
				}
				return len(order)
			}
			lastJ[o[0]] = o[1]
		}
		for _, e := range before {
			if seen[e] == 0 {
				if problem == "" {
					problem = fmt.Sprintf("Iterator taken after Add(%v) had returned does not yield it (%d items)", e, len(order))
				}
				return len(order)
			}
		}
		return len(order)
	}
	readers := 0
	if idx%2 == 0 {
		readers = 1 + rng.IntN(4)
	}
	r.Eval()
	kit.WithProcs(procs, func() {
		bar := kit.NewBarrier(G)
		var wg, rwg sync.WaitGroup
		var addersDone atomic.Bool
		for k := 0; k < readers; k++ {
			rwg.Add(1)
			go func() {
				defer rwg.Done()
				defer func() {
					if p := recover(); p != nil {
						note(fmt.Sprintf("panic in Iterator reader: %v", p))
					}
				}()
				for !addersDone.Load() {
					checkIter()
				}
				checkIter()
			}()
		}
		// resolvers: keep resolving while the adders work (a Resolve that
		// overlaps an Add must not hide that Add from later Resolve calls);
		// what one goroutine sees never shrinks
		for k := 0; k < 1+readers/2; k++ {
			rwg.Add(1)
			go func() {
				defer rwg.Done()
				defer func() {
					if p := recover(); p != nil {
						note(fmt.Sprintf("panic in Resolve caller: %v", p))
					}
				}()
				last := 0
				for spin := 0; !addersDone.Load(); spin++ {
					res := ec.Resolve()
					if spin%8 == 0 && res != nil {
						if n := len(ers.Unwind(res)); n < last {
							note(fmt.Sprintf("successive Resolve() calls of one goroutine list %d and then %d errors", last, n))
						} else {
							last = n
						}
					}
				}
			}()
		}
		defer func() { addersDone.Store(true); rwg.Wait() }()
		for g := 0; g < G; g++ {
			wg.Add(1)
			go func(g int) {
				defer wg.Done()
				defer func() {
					if p := recover(); p != nil {
						note(fmt.Sprintf("panic: %v", p))
					}
				}()
				bar.Wait()
				lastLen := 0
				for j, kind := range plans[g] {
					var mine, top []error
					switch kind {
					case 0:
						ec.Add(nil)
					case 1:
						e := errors.New(fmt.Sprintf("g%d-%d", g, j))
						mine = []error{e}
						register(g, j, e)
						ec.Add(e)
					case 2:
						a, b := ers.Error(fmt.Sprintf("g%d-%d-a", g, j)), errors.New(fmt.Sprintf("g%d-%d-b", g, j))
						mine = []error{a, b}
						register(g, j, a, b)
						ec.Add(ers.Join(a, nil, b))
					case 3:
						e := &typedErr{g*1000 + j, "c"}
						w := fmt.Errorf("ctx: %w", e)
						mine = []error{e}
						top = []error{w}
						register(g, j, w)
						ec.Add(w)
					}
					mu.Lock()
					all = append(all, mine...)
					total += len(mine)
					if top != nil {
						tops = append(tops, top...)
					} else {
						tops = append(tops, mine...)
					}
					mu.Unlock()
					// whatever this goroutine added before is visible now
					snap := ec.Resolve()
					for _, e := range mine {
						if !errors.Is(snap, e) {
							note(fmt.Sprintf("Resolve() taken after Add(%v) returned does not contain it", e))
						}
					}
					if l := ec.Len(); l < lastLen {
						note(fmt.Sprintf("Len went backwards: %d after %d", l, lastLen))
					} else {
						lastLen = l
					}
					if len(mine) > 0 && !ec.HasErrors() {
						note("HasErrors() false after a non-nil Add")
					}
					switch rng2 := (g + j) % 3; rng2 {
					case 0:
						if snap != nil {
							_ = snap.Error()
							_ = ers.Unwind(snap)
						}
					case 1:
						if cnt := checkIter(); cnt < len(mine) {
							note("Iterator shorter than what this goroutine added")
						}
					}
				}
			}(g)
		}
		wg.Wait()
	})
	desc := map[string]any{"goroutines": G, "adds_per_goroutine": per, "gomaxprocs": procs, "non_nil_constituents": total}
	if problem != "" {
		r.Violation("C12/Collector/concurrent", idx, desc, problem, nil)
		return
	}
	if ec.Len() != total {
		r.Violation("C12/Collector/len", idx, desc, fmt.Sprintf("Len()=%d after %d non-nil constituents were added", ec.Len(), total), nil)
		return
	}
	res := ec.Resolve()
	if (res == nil) != (total == 0) {
		r.Violation("C12/Collector/nil-iff-empty", idx, desc, fmt.Sprintf("Resolve() nil=%v with %d constituents", res == nil, total), nil)
		return
	}
	for _, e := range all {
		if !errors.Is(res, e) {
			r.Violation("C12/Collector/lost", idx, desc, fmt.Sprintf("added error %v is not found in Resolve()", e), nil)
			return
		}
	}
	if res != nil {
		if got := len(ers.Unwind(res)); got != total {
			r.Violation("C12/Collector/unwind-count", idx, desc, fmt.Sprintf("Unwind(Resolve()) has %d entries, %d were added", got, total), nil)
			return
		}
	}
	if G >= 2 && total >= 2 {
		r.Distinct(fmt.Sprintf("collector|g=%d|per=%s|p=%d", G, lenClass(per), procs))
	}
	r.Count("collector_runs", 1)
}

func firstOr(errs []error) error {
	if len(errs) == 0 {
		return nil
	}
	return errs[0]
}

// fieldErrs is the classic typed-nil mistake: a nil *fieldErrs returned as a
// non-nil error; inspecting it (Unwrap) dereferences nil and panics.
type fieldErrs struct{ errs []error }

func (f *fieldErrs) Error() string   { return "field errors" }
func (f *fieldErrs) Unwrap() []error { return f.errs }

// c12Session drives one Collector through a sequential program that uses
// every way errors get into it (Add, Handler, Check, Collect, When, Recover,
// WithRecoverCall / WithRecoverDo, RecoverHook, Consume, Stream) and looks
// at it between the steps (Resolve, Len, HasErrors / Ok, Future, Iterator):
// whatever was looked at before, the next look reports everything added so
// far.
func c12Session(r *kit.Run, idx int64, rng *rand.Rand) {
	ec := &erc.Collector{}
	var want []error // identity-comparable constituents added so far
	panics := 0      // recovered panics
	others := 0      // additions that cannot be asked about by identity (When)
	var log []string
	poisoned, wedged := false, false // an error whose inspection panics was added; the collector blocked
	r.Eval()
	desc := func() map[string]any { return map[string]any{"mode": "collector-session", "steps": log} }
	viol := func(kind, detail string) { r.Violation("C12/Collector.session/"+kind, idx, desc(), detail, nil) }
	mk := func() error { return seqErr(len(want)*1000 + len(log)) }
	look := func(how string) bool {
		var res error
		switch how {
		case "Resolve":
			res = ec.Resolve()
		case "Future":
			res = ec.Future()()
		case "Len":
			n := ec.Len()
			if (n == 0) != (len(want)+panics+others == 0) && !poisoned || n < len(want) {
				viol("len-mismatch", fmt.Sprintf("Len()=%d after %d errors and %d recovered panics were added", n, len(want)+others, panics))
				return false
			}
			if ec.HasErrors() != (n != 0) || ec.Ok() != (n == 0) {
				viol("len-mismatch", fmt.Sprintf("HasErrors()=%v Ok()=%v with Len()=%d", ec.HasErrors(), ec.Ok(), n))
				return false
			}
			return true
		case "Iterator":
			seen := map[error]int{}
			it := ec.Iterator()
			for k := 0; it.Next(context.Background()) && k < 10000; k++ {
				seen[it.Value()]++
			}
			for _, e := range want {
				if seen[e] != 1 {
					viol("iterator-mismatch", fmt.Sprintf("the iterator yields %v %d times, it was added once", e, seen[e]))
					return false
				}
			}
			return true
		}
		if (res == nil) != (len(want)+panics+others == 0) && !(poisoned && len(want)+panics+others == 0) {
			viol("nil-ness", fmt.Sprintf("%s() is %v after %d errors and %d recovered panics were added", how, res, len(want)+others, panics))
			return false
		}
		for _, e := range want {
			if !errors.Is(res, e) {
				viol("constituent-missing", fmt.Sprintf("errors.Is(%s(), %v) is false although it was added; result: %v", how, e, res))
				return false
			}
		}
		if panics > 0 && !errors.Is(res, fun.ErrRecoveredPanic) {
			viol("constituent-missing", fmt.Sprintf("%d panic(s) were recovered into the collector, errors.Is(%s(), ErrRecoveredPanic) is false; result: %v", panics, how, res))
			return false
		}
		if res != nil {
			uw := ers.Unwind(res)
			have := map[error]int{}
			for _, u := range uw {
				if _, isSeq := u.(seqErr); isSeq {
					have[u]++
				}
			}
			for _, e := range want {
				if have[e] != 1 {
					viol("unwind-mismatch", fmt.Sprintf("Unwind(%s()) lists %v %d times, it was added once (%d items)", how, e, have[e], len(uw)))
					return false
				}
			}
		}
		return true
	}
	kinds := map[string]bool{}
	steps := 3 + rng.IntN(14)
	panicked, pv, pst := kit.Guard(func() {
		for s := 0; s < steps; s++ {
			if rng.IntN(5) < 2 {
				how := []string{"Resolve", "Resolve", "Future", "Len", "Iterator"}[rng.IntN(5)]
				log = append(log, how)
				if !look(how) {
					return
				}
				continue
			}
			op := []string{"Add", "Add(nil)", "Handler", "Check", "Check(nil)", "Collect", "When", "When(false)", "Recover", "WithRecoverCall", "WithRecoverCall(no panic)", "WithRecoverDo", "RecoverHook", "RecoverHook(string)", "RecoverHook(no panic)", "Consume", "Stream", "Add(join)", "Add(error whose Unwrap panics)"}[rng.IntN(19)]
			log = append(log, op)
			kinds[op] = true
			switch op {
			case "Add":
				e := mk()
				ec.Add(e)
				want = append(want, e)
			case "Add(nil)":
				ec.Add(nil)
			case "Handler":
				e := mk()
				ec.Handler()(e)
				want = append(want, e)
			case "Check":
				e := mk()
				erc.Check(ec, func() error { return e })
				want = append(want, e)
			case "Check(nil)":
				erc.Check(ec, func() error { return nil })
			case "Collect":
				e := mk()
				if got := erc.Collect[int](ec)(7, e); got != 7 {
					viol("collect-value", fmt.Sprintf("Collect returned %d, want 7", got))
					return
				}
				want = append(want, e)
			case "When":
				erc.When(ec, true, fmt.Sprintf("when-%d", s))
				others++
			case "When(false)":
				erc.When(ec, false, "never")
			case "Recover":
				e := mk()
				func() {
					defer erc.Recover(ec)
					panic(e)
				}()
				want = append(want, e)
				panics++
			case "WithRecoverCall":
				e := mk()
				erc.WithRecoverCall(ec, func() { panic(e) })
				want = append(want, e)
				panics++
			case "WithRecoverCall(no panic)":
				erc.WithRecoverCall(ec, func() {})
			case "WithRecoverDo":
				e := mk()
				_ = erc.WithRecoverDo(ec, func() int { panic(e) })
				want = append(want, e)
				panics++
			case "RecoverHook":
				e := mk()
				hooked := false
				func() {
					defer erc.RecoverHook(ec, func() { hooked = true })
					panic(e)
				}()
				if !hooked {
					viol("hook-not-run", "RecoverHook did not run its hook after a panic")
					return
				}
				want = append(want, e)
				panics++
			case "RecoverHook(string)":
				func() {
					defer erc.RecoverHook(ec, nil)
					panic(fmt.Sprintf("text-%d", s))
				}()
				panics++
			case "RecoverHook(no panic)":
				func() { defer erc.RecoverHook(ec, func() { panic("hook must not run") }) }()
			case "Consume":
				es := []error{mk(), nil}
				want = append(want, es[0])
				e2 := seqErr(-len(log) - 1)
				es = append(es, e2)
				want = append(want, e2)
				var items []error
				for _, e := range es {
					if e != nil {
						items = append(items, e)
					}
				}
				erc.Consume(context.Background(), ec, fun.SliceIterator(items))
			case "Stream":
				e := mk()
				ch := make(chan error, 2)
				ch <- e
				close(ch)
				erc.Stream(context.Background(), ec, ch)
				want = append(want, e)
			case "Add(error whose Unwrap panics)":
				// whatever Add does with it (panic to its caller, or store it): the
				// collector must stay usable afterwards
				var fe *fieldErrs
				kit.Guard(func() { ec.Add(fe) })
				poisoned = true
				done := make(chan struct{})
				go func() { _ = ec.Len(); close(done) }()
				if met, q, cs := kit.Await(3*time.Second, 20*time.Second, func() bool { return isClosed(done) }); !met {
					if q {
						viol("collector-wedged", fmt.Sprintf("after Add of an error whose Unwrap() panics, Len() does not return any more; at quiescence: %v", clipStrs(cs.Describe(), 6)))
					} else {
						r.Inconclusive("C12 session: Len() after a poisoned Add did not return, not quiescent")
					}
					wedged = true
					return
				}
			case "Add(join)":
				e1, e2 := mk(), seqErr(-len(log)-1)
				ec.Add(ers.Join(e1, nil, e2))
				want = append(want, e1, e2)
			}
		}
		if wedged {
			return
		}
		log = append(log, "Resolve")
		if !look("Resolve") {
			return
		}
		log = append(log, "Len")
		look("Len")
	})
	if wedged {
		return // the goroutine that is stuck in the collector stays behind; reported above
	}
	if panicked {
		viol("panic", fmt.Sprintf("panic: %v\n%s", pv, clipS(pst, 1200)))
		return
	}
	ks := make([]string, 0, len(kinds))
	for k := range kinds {
		ks = append(ks, k)
	}
	sort.Strings(ks)
	r.Distinct("session|" + strings.Join(ks, ","))
	r.Count("collector_session_steps", int64(len(log)))
}
