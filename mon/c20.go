package mon

import (
	"context"
	"errors"
	"fmt"
	"io"
	"math/rand/v2"
	"strings"
	"sync/atomic"
	"time"

	"github.com/tychoish/fun/pubsub"

	"verif/kit"
)

// C20 — non-destructive Queue/Deque iterators see every item in order
// and never crash. A controller executes a seeded script of
// {iterator step, add, remove, close, cancel}; iterator steps run in
// their own goroutine so that a parked step can be observed. Values are
// strictly increasing ids. Expectations that are met are decided at
// once; an unmet one is decided at quiescence (DESIGN 3.3).

func init() { register("C20", runC20) }

const c20Watchdog = 20 * time.Second

var c20Kinds = []string{"queue-iter", "deque-fwd", "deque-rev", "deque-fwd-blocking", "deque-rev-blocking"}

type c20Iter struct {
	kind     string
	next     func(context.Context) (byte, error)
	ctx      context.Context
	cancel   context.CancelFunc
	req      chan struct{}
	res      chan c20Res
	yielded  []byte
	pending  bool
	finished bool // returned an error
	lastErr  error
}

type c20Res struct {
	v   byte
	err error
	pan string
}

func (it *c20Iter) loop() {
	for range it.req {
		var r c20Res
		func() {
			defer func() {
				if p := recover(); p != nil {
					r.pan = fmt.Sprint(p)
				}
			}()
			r.v, r.err = it.next(it.ctx)
		}()
		kit.Stamp()
		it.res <- r
	}
}

func (it *c20Iter) blocking() bool {
	return it.kind == "queue-iter" || strings.HasSuffix(it.kind, "-blocking")
}
func (it *c20Iter) reverse() bool { return strings.Contains(it.kind, "-rev") }

func runC20(r *kit.Run) {
	n := int64(r.Scale(1400, 1200000))
	for i := int64(0); i < n && !r.Stopped(); i++ {
		if !r.Mine(i) {
			continue
		}
		c20Scenario(r, i, r.Rng("scn", i))
	}
	nh := int64(r.Scale(150, 18000))
	for i := int64(0); i < nh && !r.Stopped(); i++ {
		if !r.Mine(i) {
			continue
		}
		c20Hook(r, i, r.Rng("hook", i))
	}
}

type c20Box struct {
	q *pubsub.Queue[byte]
	d *pubsub.Deque[byte]
}

func (b c20Box) len() int {
	if b.q != nil {
		return b.q.Len()
	}
	return b.d.Len()
}
func (b c20Box) close() {
	if b.q != nil {
		_ = b.q.Close()
	} else {
		_ = b.d.Close()
	}
}

func c20NewIter(b c20Box, kind string) *c20Iter {
	it := &c20Iter{kind: kind, req: make(chan struct{}), res: make(chan c20Res, 1)}
	it.ctx, it.cancel = context.WithCancel(context.Background())
	switch kind {
	case "queue-iter":
		it.next = b.q.Iterator().ReadOne
	case "deque-fwd":
		it.next = b.d.Iterator().ReadOne
	case "deque-rev":
		it.next = b.d.IteratorReverse().ReadOne
	case "deque-fwd-blocking":
		it.next = b.d.ProducerBlocking()
	case "deque-rev-blocking":
		it.next = b.d.ProducerReverseBlocking()
	}
	go it.loop()
	return it
}

func c20Scenario(r *kit.Run, idx int64, rng *rand.Rand) {
	kind := c20Kinds[int(idx)%len(c20Kinds)]
	withRemoval := rng.IntN(3) == 0
	twoIters := kind == "queue-iter" && rng.IntN(2) == 0
	procs := kit.ProcsFor(idx / int64(len(c20Kinds)))
	var box c20Box
	if kind == "queue-iter" {
		box.q = pubsub.NewUnlimitedQueue[byte]()
	} else {
		box.d = pubsub.NewUnlimitedDeque[byte]()
	}
	var script []string
	var id byte
	// present: ids currently in the container, front to back
	var present []byte
	var added []byte
	removedAny := false
	rev := strings.Contains(kind, "-rev")
	// "far end" = where the iterator is heading: back for forward
	// iteration, front for reverse iteration
	addFar := func() byte {
		id++
		added = append(added, id)
		if box.q != nil {
			_ = box.q.Add(id)
			present = append(present, id)
		} else if rev {
			_ = box.d.PushFront(id)
			present = append([]byte{id}, present...)
		} else {
			_ = box.d.PushBack(id)
			present = append(present, id)
		}
		return id
	}
	initial := rng.IntN(7)
	for k := 0; k < initial; k++ {
		addFar()
	}
	// expected sequence for the decisive (no-removal) mode: the items in
	// iteration order, then every later far-end addition in order. With
	// addFar only, that is simply the order of addition.
	script = append(script, fmt.Sprintf("initial %v", present))
	its := []*c20Iter{c20NewIter(box, kind)}
	if twoIters {
		its = append(its, c20NewIter(box, kind))
	}
	closed := false
	r.Eval()
	r.Current(idx, fmt.Sprintf("C20 %s removal=%v", kind, withRemoval))
	desc := func() map[string]any {
		var ys []any
		for _, it := range its {
			ys = append(ys, map[string]any{"yielded": it.yielded, "pending": it.pending, "finished": it.finished, "last_error": fmt.Sprint(it.lastErr)})
		}
		return map[string]any{"iterator": kind, "with_removal": withRemoval, "gomaxprocs": procs, "script": script, "iterators": ys, "present_now": present, "added": added}
	}
	name := func(i int) string { return fmt.Sprintf("it%d", i) }
	failed := false
	var parkOrder []int // iterators whose current step is parked, oldest first
	viol := func(kindv, detail string, cs *kit.Census) {
		failed = true
		var w any
		if cs != nil {
			w = cs.Describe()
		}
		r.Violation("C20/"+kind+"/"+kindv, idx, desc(), detail, w)
	}
	inconclusive := ""

	// accept processes a result of iterator i against the oracle.
	accept := func(i int, res c20Res) {
		it := its[i]
		it.pending = false
		for k, x := range parkOrder {
			if x == i {
				parkOrder = append(parkOrder[:k:k], parkOrder[k+1:]...)
				break
			}
		}
		if res.pan != "" {
			viol("panic", fmt.Sprintf("%s panicked: %s", name(i), res.pan), nil)
			return
		}
		if res.err != nil {
			it.finished, it.lastErr = true, res.err
			cancelled := it.ctx.Err() != nil
			switch {
			case cancelled && (errors.Is(res.err, context.Canceled) || errors.Is(res.err, io.EOF)):
			case closed && errors.Is(res.err, io.EOF):
				if !withRemoval && !cancelled && len(it.yielded) != len(added) {
					viol("ended-early", fmt.Sprintf("%s finished after Close having yielded %v, the container holds %v", name(i), it.yielded, added), nil)
				}
			case !it.blocking() && errors.Is(res.err, io.EOF):
				// a non-blocking iterator finishes at the end: in the
				// decisive mode it must have seen everything first
				if !withRemoval && len(it.yielded) != len(added) {
					viol("ended-early", fmt.Sprintf("%s finished after %v, the container holds %v", name(i), it.yielded, added), nil)
				}
			default:
				viol("unexpected-error", fmt.Sprintf("%s returned %v (closed=%v cancelled=%v)", name(i), res.err, closed, cancelled), nil)
			}
			return
		}
		// a value
		v := res.v
		known := false
		for _, a := range added {
			if a == v {
				known = true
			}
		}
		if !known {
			viol("invented-value", fmt.Sprintf("%s yielded %d, which was never added", name(i), v), nil)
			return
		}
		for _, y := range it.yielded {
			if y == v {
				viol("duplicate", fmt.Sprintf("%s yielded %d twice (%v)", name(i), v, it.yielded), nil)
				return
			}
		}
		if !withRemoval {
			want := added[len(it.yielded)]
			if v != want {
				viol("out-of-order-or-skipped", fmt.Sprintf("%s yielded %d, the next item in order is %d (yielded so far %v, added %v)", name(i), v, want, it.yielded, added), nil)
				return
			}
		} else if n := len(it.yielded); n > 0 && v < it.yielded[n-1] {
			viol("order", fmt.Sprintf("%s yielded %d after %d", name(i), v, it.yielded[n-1]), nil)
			return
		}
		it.yielded = append(it.yielded, v)
	}

	// settle waits for every pending step that the model says must
	// return; an unmet expectation is decided at quiescence.
	mustReturn := func(i int) (bool, string) {
		it := its[i]
		if it.ctx.Err() != nil {
			return true, "its context is cancelled"
		}
		if closed {
			return true, "the container is closed"
		}
		if !it.blocking() {
			return true, "the iterator is non-blocking"
		}
		if !withRemoval && len(it.yielded) < len(added) {
			return true, fmt.Sprintf("item %d is present and unseen", added[len(it.yielded)])
		}
		if withRemoval && kind == "queue-iter" && len(present) > 0 {
			// an item that is in the queue now and newer than everything
			// yielded is ahead of the cursor
			var mx byte
			for _, y := range it.yielded {
				if y > mx {
					mx = y
				}
			}
			if present[len(present)-1] > mx {
				return true, fmt.Sprintf("item %d is present and newer than everything yielded", present[len(present)-1])
			}
		}
		return false, ""
	}
	poll := func(i int) bool {
		select {
		case res := <-its[i].res:
			accept(i, res)
			return true
		default:
			return false
		}
	}
	settle := func() {
		for i, it := range its {
			if !it.pending || failed {
				continue
			}
			must, why := mustReturn(i)
			if must {
				if kit.WaitUntil(c20Watchdog/8, func() bool { return poll(i) }) {
					continue
				}
				cs, q := kit.Quiesce(c20Watchdog)
				if poll(i) {
					continue
				}
				if q {
					kindv := "parked-with-unseen-item"
					if strings.Contains(why, "cancel") || strings.Contains(why, "closed") || strings.Contains(why, "non-blocking") {
						kindv = "does-not-return"
					}
					viol(kindv, fmt.Sprintf("%s is still parked at quiescence although %s (Len()=%d)", name(i), why, box.len()), &cs)
				} else {
					inconclusive = "iterator step unmet and process not quiescent"
				}
				return
			}
			// the model says it parks: confirm at quiescence that it did
			// not return something instead
			if _, q := kit.Quiesce(c20Watchdog); !q {
				inconclusive = "not quiescent while an iterator is expected to be parked"
				return
			}
			if poll(i) {
				continue // accept() judged the value / error
			}
			r.Count("steps_observed_parked", 1)
			already := false
			for _, x := range parkOrder {
				if x == i {
					already = true
				}
			}
			if !already {
				parkOrder = append(parkOrder, i)
			}
		}
	}

	kit.WithProcs(procs, func() {
		steps := 4 + rng.IntN(14)
		if twoIters && rng.IntN(2) == 0 {
			// preamble: both iterators catch up and park behind the tail
			for i := range its {
				for k := 0; k <= len(added) && !failed && inconclusive == ""; k++ {
					if its[i].pending || its[i].finished {
						break
					}
					its[i].pending = true
					its[i].req <- struct{}{}
					script = append(script, name(i)+".next")
					settle()
				}
			}
		}
		for s := 0; s < steps && !failed && inconclusive == ""; s++ {
			act := []int{0, 0, 0, 0, 1, 1, 1, 2, 3, 4, 6}[rng.IntN(11)]
			if np := len(parkOrder); np >= 2 && rng.IntN(2) == 0 {
				act = 5 // several iterators are parked on the same condition: cancel the one that parked last
			}
			switch c := act; c {
			case 5:
				i := parkOrder[len(parkOrder)-1]
				if its[i].ctx.Err() != nil || !its[i].pending {
					break
				}
				its[i].cancel()
				script = append(script, name(i)+".cancel (youngest parked)")
				settle()
			case 0: // iterator step
				i := rng.IntN(len(its))
				it := its[i]
				if it.pending || it.finished {
					break
				}
				it.pending = true
				it.req <- struct{}{}
				script = append(script, name(i)+".next")
				settle()
			case 1:
				if closed {
					break
				}
				v := addFar()
				script = append(script, fmt.Sprintf("add %d", v))
				settle()
			case 6:
				// a burst: several additions, possibly followed by Close, land
				// before a parked step has been able to react to the first
				if closed {
					break
				}
				nb := 1 + rng.IntN(3)
				thenClose := rng.IntN(2) == 0
				for k := 0; k < nb; k++ {
					v := addFar()
					script = append(script, fmt.Sprintf("add %d (burst)", v))
				}
				if thenClose {
					box.close()
					closed = true
					script = append(script, "close (same burst)")
				}
				settle()
			case 2: // remove
				if !withRemoval || len(present) == 0 {
					break
				}
				removedAny = true
				var v byte
				var ok bool
				switch {
				case box.q != nil:
					v, ok = box.q.Remove()
					present = present[1:]
				case rng.IntN(2) == 0:
					v, ok = box.d.PopFront()
					present = present[1:]
				default:
					v, ok = box.d.PopBack()
					present = present[:len(present)-1]
				}
				script = append(script, fmt.Sprintf("remove -> %d %v", v, ok))
				settle()
			case 3:
				if closed || rng.IntN(2) == 0 {
					break
				}
				box.close()
				closed = true
				script = append(script, "close")
				settle()
			case 4:
				i := rng.IntN(len(its))
				if its[i].ctx.Err() != nil || rng.IntN(2) == 0 {
					break
				}
				its[i].cancel()
				script = append(script, name(i)+".cancel")
				settle()
			}
		}
		// the end: non-blocking iterators finish, blocking ones return
		// after Close
		if !failed && inconclusive == "" {
			if !closed {
				box.close()
				closed = true
				script = append(script, "close(final)")
			}
			for round := 0; round < len(added)+4 && !failed && inconclusive == ""; round++ {
				busy := false
				for _, it := range its {
					if it.finished {
						continue
					}
					busy = true
					if !it.pending {
						it.pending = true
						it.req <- struct{}{}
					}
				}
				if !busy {
					break
				}
				settle()
			}
			for i, it := range its {
				if !failed && inconclusive == "" && !it.finished && !withRemoval {
					viol("never-finishes", fmt.Sprintf("%s is not finished after Close and len(added)+4 more steps (yielded %v)", name(i), it.yielded), nil)
				}
			}
		}
		// release
		for _, it := range its {
			it.cancel()
		}
		box.close()
		for i, it := range its {
			if it.pending {
				kit.WaitUntil(c20Watchdog, func() bool { return poll(i) })
			}
			close(it.req)
		}
	})
	if inconclusive != "" {
		r.Inconclusive("C20 scenario: " + inconclusive)
		return
	}
	if failed {
		return
	}
	_ = removedAny
	tot := 0
	for _, it := range its {
		tot += len(it.yielded)
	}
	if tot >= 2 {
		r.Distinct(fmt.Sprintf("%s|rm=%v|two=%v|init=%d|p=%d|n=%s", kind, withRemoval, twoIters, initial, procs, lenClass(len(script))))
	}
	r.Count("values_yielded", int64(tot))
	if r.WantSample() && tot > 3 {
		r.Sample(desc())
	}
}

// c20Hook lands an Add (or a cancel) exactly between a blocking
// iterator's look at the tail and its cond.Wait.
func c20Hook(r *kit.Run, idx int64, rng *rand.Rand) {
	kind := []string{"queue-iter", "deque-fwd-blocking", "deque-rev-blocking"}[rng.IntN(3)]
	var box c20Box
	if kind == "queue-iter" {
		box.q = pubsub.NewUnlimitedQueue[byte]()
	} else {
		box.d = pubsub.NewUnlimitedDeque[byte]()
	}
	rev := strings.Contains(kind, "-rev")
	add := func(v byte) {
		switch {
		case box.q != nil:
			_ = box.q.Add(v)
		case rev:
			_ = box.d.PushFront(v)
		default:
			_ = box.d.PushBack(v)
		}
	}
	initial := rng.IntN(4)
	for k := 1; k <= initial; k++ {
		add(byte(k))
	}
	mode := rng.IntN(3) // 0 add in window, 1 cancel in window, 2 remove-to-empty then add in window (queue)
	if mode == 2 && kind != "queue-iter" {
		mode = 0
	}
	it := c20NewIter(box, kind)
	var hits atomic.Int64
	desc := map[string]any{"iterator": kind, "initial_items": initial, "in_window": []string{"add", "cancel", "remove-to-empty then add"}[mode]}
	r.Eval()
	newV := byte(100)
	kit.WithHook(func(p string) {
		if p != "pubsub.wait.before-cond-wait" || hits.Add(1) != 1 {
			return
		}
		switch mode {
		case 0:
			go add(newV)
			kit.Yields(100)
		case 1:
			it.cancel()
			kit.Yields(300)
		case 2:
			go func() {
				for {
					if _, ok := box.q.Remove(); !ok {
						break
					}
				}
				add(newV)
			}()
			kit.Yields(100)
		}
	}, func() {
		// consume what is there
		for k := 0; k < initial; k++ {
			it.req <- struct{}{}
			res := <-it.res
			if res.pan != "" || res.err != nil || int(res.v) != k+1 {
				r.Violation("C20/"+kind+"/hook-setup", idx, desc, fmt.Sprintf("reading the initial items: got %+v at position %d", res, k), nil)
				return
			}
		}
		it.req <- struct{}{} // this step reaches the window
		var res c20Res
		got := kit.WaitUntil(c20Watchdog/4, func() bool {
			select {
			case res = <-it.res:
				return true
			default:
				return false
			}
		})
		if !got {
			cs, q := kit.Quiesce(c20Watchdog)
			select {
			case res = <-it.res:
				got = true
			default:
			}
			if !got {
				if q {
					r.Violation("C20/"+kind+"/lost-in-window", idx, desc,
						fmt.Sprintf("the %s landed between the iterator's look at the tail and cond.Wait; at quiescence the step is still parked (Len()=%d)", desc["in_window"], box.len()), cs.Describe())
				} else {
					r.Inconclusive("C20 hook scenario: not released and not quiescent")
				}
				it.cancel()
				box.close()
				<-it.res
				close(it.req)
				return
			}
		}
		close(it.req)
		switch {
		case res.pan != "":
			r.Violation("C20/"+kind+"/panic", idx, desc, res.pan, nil)
		case mode == 1 && res.err == nil:
			r.Violation("C20/"+kind+"/cancel-ignored", idx, desc, fmt.Sprintf("the step returned %d after its context was cancelled on an exhausted container", res.v), nil)
		case mode != 1 && (res.err != nil || res.v != newV):
			r.Violation("C20/"+kind+"/wrong-item", idx, desc, fmt.Sprintf("the step returned (%d,%v), the item added in the window is %d", res.v, res.err, newV), nil)
		default:
			if hits.Load() > 0 {
				r.Distinct(fmt.Sprintf("hook|%s|m=%d|init=%d", kind, mode, initial))
				r.Count("hook_scenarios_ok", 1)
			}
		}
		box.close()
	})
}
