package mon

import (
	"context"
	"errors"
	"fmt"
	"math/rand/v2"
	"runtime"
	"strings"
	"sync"
	"sync/atomic"
	"time"

	"github.com/tychoish/fun"
	"github.com/tychoish/fun/ers"

	"verif/kit"
)

// C14 — fun.WaitGroup: Wait returns iff the counter is zero or its
// context ended.
//
// Safety is decided with happens-before stamps (DESIGN 3.1): every
// worker takes a stamp just before it calls Done, every waiter takes
// one after Wait returned; a waiter whose context is still live must
// hold a stamp larger than all of them. Liveness is decided as bounded
// progress at quiescence (DESIGN 3.3).

func init() { register("C14", runC14) }

const c14Watchdog = 20 * time.Second

func runC14(r *kit.Run) {
	n := int64(r.Scale(1200, 120000))
	if r.Build != "plain" {
		n /= 10
	}
	for i := int64(0); i < n && !r.Stopped(); i++ {
		if !r.Mine(i) {
			continue
		}
		c14Rounds(r, i, r.Rng("rounds", i))
	}
	nh := int64(r.Scale(160, 6000))
	for i := int64(0); i < nh && !r.Stopped(); i++ {
		if !r.Mine(i) {
			continue
		}
		c14Hook(r, i, r.Rng("hook", i))
	}
	ne := int64(r.Scale(16, 400))
	for i := int64(0); i < ne && !r.Stopped(); i++ {
		if !r.Mine(i) {
			continue
		}
		c14EntryRace(r, i, r.Rng("entry", i))
	}
	ni := int64(r.Scale(400, 20000))
	for i := int64(0); i < ni && !r.Stopped(); i++ {
		if !r.Mine(i) {
			continue
		}
		c14Invariant(r, i, r.Rng("inv", i))
	}
}

// c14Rounds re-uses one group for several rounds of workers and waiters.
func c14Rounds(r *kit.Run, idx int64, rng *rand.Rand) {
	wg := &fun.WaitGroup{}
	rounds := 1 + rng.IntN(5)
	procs := kit.ProcsFor(idx)
	r.Eval()
	var log []string
	for round := 0; round < rounds; round++ {
		workers := 1 + rng.IntN(12)
		if rng.IntN(8) == 0 {
			workers = 13 + rng.IntN(52)
		}
		waiters := 1 + rng.IntN(8)
		speed := kit.RandSpeed(rng)
		mode := rng.IntN(5) // how the counter is raised / goroutines started
		cancelSome := rng.IntN(3) == 0 && waiters > 1
		desc := map[string]any{"round": round, "of": rounds, "workers": workers, "waiters": waiters, "speed": speed.String(),
			"start_mode": []string{"Add(n)+go", "Inc each+go", "wg.Launch", "wg.DoTimes/StartGroup", "Operation.Add"}[mode], "cancel_some_waiters": cancelSome, "gomaxprocs": procs, "previous_rounds": log}

		stamps := make([]atomic.Int64, workers) // stamp taken just before Done / at the end of the op
		release := make(chan struct{})
		var seeds []uint64
		for w := 0; w < workers; w++ {
			seeds = append(seeds, rng.Uint64())
		}
		// operations started through the library may leave their goroutine
		// without returning (runtime.Goexit, which is what testing.T.FailNow
		// does): the goroutine was started by Launch and must be accounted for
		goexit := mode >= 2 && rng.IntN(3) == 0
		desc["some_operations_end_in_goexit"] = goexit
		body := func(w int) {
			<-release
			speed.Pace(w, workers, seeds[w])
			stamps[w].Store(kit.Stamp())
			if goexit && seeds[w]%3 == 0 {
				runtime.Goexit()
			}
		}
		ctx, cancelAll := context.WithCancel(context.Background())
		var violation string
		var vmu sync.Mutex
		note := func(s string) {
			vmu.Lock()
			if violation == "" {
				violation = s
			}
			vmu.Unlock()
		}
		// a quarter of the library-started rounds submit their work with a
		// context that has already ended (a late submission after a shutdown):
		// whatever is started with it is still accounted for
		lctx := ctx
		if mode >= 2 && rng.IntN(4) == 0 {
			c, cc := context.WithCancel(ctx)
			cc()
			lctx = c
		}
		kit.WithProcs(procs, func() {
			// raise the counter to N, then it is only lowered
			switch mode {
			case 0:
				wg.Add(workers)
				for w := 0; w < workers; w++ {
					go func(w int) { body(w); wg.Done() }(w)
				}
			case 1:
				for w := 0; w < workers; w++ {
					wg.Inc()
					go func(w int) { body(w); wg.Done() }(w)
				}
			case 2:
				for w := 0; w < workers; w++ {
					w := w
					wg.Launch(lctx, func(context.Context) { body(w) })
				}
			case 3:
				var next atomic.Int64
				op := fun.Operation(func(context.Context) { body(int(next.Add(1) - 1)) })
				if rng.IntN(2) == 0 {
					wg.DoTimes(lctx, workers, op)
				} else {
					op.StartGroup(lctx, wg, workers)
				}
				if rng.IntN(3) == 0 {
					// a count that is not positive starts nothing and leaves the
					// counter alone
					zero := -rng.IntN(3)
					if p, pv, _ := kit.Guard(func() { wg.DoTimes(ctx, zero, op) }); p {
						note(fmt.Sprintf("DoTimes(%d) panicked: %v", zero, pv))
					}
					if got := wg.Num(); got != workers {
						note(fmt.Sprintf("Num()=%d after DoTimes(%d) on a group tracking %d workers", got, zero, workers))
					}
				}
			case 4:
				for w := 0; w < workers; w++ {
					w := w
					fun.Operation(func(context.Context) { body(w) }).Add(ctx, wg)
				}
			}
			if got := wg.Num(); got != workers {
				note(fmt.Sprintf("Num()=%d after the counter was raised by %d", got, workers))
			}
			// waiters: some enter before the workers are released, some during
			var wwg sync.WaitGroup
			returned := make([]atomic.Int64, waiters)
			wctx := make([]context.Context, waiters)
			wcancel := make([]context.CancelFunc, waiters)
			wasCancelled := make([]atomic.Bool, waiters)
			for k := 0; k < waiters; k++ {
				wctx[k], wcancel[k] = context.WithCancel(context.Background())
				wwg.Add(1)
				delay := rng.IntN(30)
				useWorker := rng.IntN(4) == 0
				go func(k int) {
					defer wwg.Done()
					kit.Yields(delay)
					if useWorker {
						_ = wg.Worker().Run(wctx[k])
					} else {
						wg.Wait(wctx[k])
					}
					t := kit.Stamp()
					returned[k].Store(t)
					if wasCancelled[k].Load() || wctx[k].Err() != nil {
						return // released by its own context: legitimate
					}
					// context live: the counter must have reached zero,
					// i.e. every worker has stamped before t
					for w := range stamps {
						s := stamps[w].Load()
						if s == 0 || s > t {
							note(fmt.Sprintf("waiter %d returned (stamp %d) with a live context while worker %d had not finished (stamp %d)", k, t, w, s))
							return
						}
					}
				}(k)
			}
			kit.Yields(rng.IntN(20))
			if cancelSome {
				// cancel a strict subset of the waiters while the counter is positive
				nc := 1 + rng.IntN(waiters-1)
				for k := 0; k < nc; k++ {
					wasCancelled[k].Store(true)
					wcancel[k]()
				}
				kit.Yields(rng.IntN(40))
			}
			close(release)
			// positive expectation: all waiters return
			done := make(chan struct{})
			go func() { wwg.Wait(); close(done) }()
			ok := kit.WaitUntil(c14Watchdog/4, func() bool {
				select {
				case <-done:
					return true
				default:
					return false
				}
			})
			if !ok {
				// unmet: a verdict needs quiescence
				c, q := kit.Quiesce(c14Watchdog)
				allStamped := true
				for w := range stamps {
					if stamps[w].Load() == 0 {
						allStamped = false
					}
				}
				switch {
				case isClosed(done):
					// released late (slow machine): not a verdict; the stamp
					// checks of the waiters have run as usual
					for k := range wcancel {
						wcancel[k]()
					}
					return
				case q && allStamped && wg.Num() == 0:
					note(fmt.Sprintf("at quiescence the counter is 0 and every worker has finished, but a waiter is still parked: %v", c.Describe()))
				case q:
					note(fmt.Sprintf("at quiescence Num()=%d, workers finished=%v, waiters still parked: %v", wg.Num(), allStamped, c.Describe()))
				default:
					r.Inconclusive(fmt.Sprintf("C14 round %d: waiters did not return and the process did not become quiescent", idx))
				}
				for k := range wcancel {
					wcancel[k]()
				}
				cancelAll()
				return
			}
			for k := range wcancel {
				wcancel[k]()
			}
			if got := wg.Num(); got != 0 {
				note(fmt.Sprintf("Num()=%d after all %d workers called Done", got, workers))
			}
			if !wg.IsDone() {
				note("IsDone() is false with the counter at zero")
			}
		})
		cancelAll()
		if violation != "" {
			kind := "early-return"
			switch {
			case strings.Contains(violation, "Num()"):
				kind = "counter"
			case strings.Contains(violation, "quiescence"):
				kind = "waiter-not-released"
			}
			r.Violation("C14/rounds/"+kind, idx, desc, violation, nil)
			return
		}
		log = append(log, fmt.Sprintf("round %d: %d workers, %d waiters, mode %d", round, workers, waiters, mode))
		if workers >= 2 && waiters >= 2 {
			r.Distinct(fmt.Sprintf("w=%s|wt=%d|m=%d|sp=%s|c=%v|p=%d|r=%d", lenClass(workers), waiters, mode, speed, cancelSome, procs, round))
		}
		r.Count("rounds", 1)
		r.Count("waiter_returns_checked", int64(waiters))
		if r.WantSample() && round == rounds-1 && workers > 2 {
			r.Sample(desc)
		}
	}
}

// c14Hook cancels a waiter exactly between its predicate check and
// cond.Wait (the yield point of the verif build), then decides at
// quiescence whether the waiter was released.
func c14Hook(r *kit.Run, idx int64, rng *rand.Rand) {
	wg := &fun.WaitGroup{}
	wg.Add(1)
	mode := rng.IntN(3) // 0 cancel in window, 1 Done in window, 2 both
	extraWaiters := rng.IntN(3)
	ctx, cancel := context.WithCancel(context.Background())
	defer cancel()
	var hits atomic.Int64
	var helperState atomic.Value
	returned := make(chan struct{})
	r.Eval()
	desc := map[string]any{"mode": []string{"cancel-in-window", "done-in-window", "cancel-and-done-in-window"}[mode], "other_waiters": extraWaiters}
	kit.WithHook(func(p string) {
		if p != "fun.WaitGroup.Wait.before-cond-wait" || hits.Add(1) != 1 {
			return
		}
		// we are inside Wait, after the predicate check, holding the
		// group's mutex. Only an actor that needs no lock can act here.
		if mode == 0 || mode == 2 {
			cancel()
			// let the helper goroutine react: it either blocks on the
			// mutex (correct) or broadcasts and exits (the lost wake-up)
			for k := 0; k < 2000; k++ {
				kit.Yields(5)
				c := kit.TakeCensus()
				st := "gone"
				for _, g := range c.All {
					if strings.Contains(g.Stack, "WaitGroup).Wait.func1") {
						st = g.State
					}
				}
				helperState.Store(st)
				if st == "gone" || strings.HasPrefix(st, "sync.Mutex.Lock") || strings.HasPrefix(st, "semacquire") {
					break
				}
			}
		}
		if mode == 1 || mode == 2 {
			// Done needs the mutex we hold: start it, it completes once
			// cond.Wait releases the lock
			go wg.Done()
			kit.Yields(50)
		}
	}, func() {
		go func() { wg.Wait(ctx); close(returned) }()
		others := make([]chan struct{}, extraWaiters)
		for k := range others {
			others[k] = make(chan struct{})
			go func(ch chan struct{}) { wg.Wait(ctx); close(ch) }(others[k])
		}
		isDone := func(ch chan struct{}) bool {
			select {
			case <-ch:
				return true
			default:
				return false
			}
		}
		all := func() bool {
			if !isDone(returned) {
				return false
			}
			for _, ch := range others {
				if !isDone(ch) {
					return false
				}
			}
			return true
		}
		if kit.WaitUntil(c14Watchdog/4, all) {
			if hits.Load() == 0 {
				r.Inconclusive("C14 hook scenario: the yield point was never reached")
				return
			}
			r.Count("hook_scenarios_released", 1)
			r.Distinct(fmt.Sprintf("hook|m=%d|o=%d", mode, extraWaiters))
			if mode == 0 {
				wg.Done()
			}
			cancel()
			return
		}
		c, q := kit.Quiesce(c14Watchdog)
		hs, _ := helperState.Load().(string)
		if all() {
			// released late (slow machine): not a verdict
			r.Count("hook_scenarios_released", 1)
			if mode == 0 {
				wg.Done()
			}
			cancel()
			return
		}
		if q {
			r.Violation("C14/hook/lost-wakeup", idx, desc,
				fmt.Sprintf("the waiter's enabling event (context cancelled and/or counter zero) happened between its predicate check and cond.Wait; at quiescence it is still parked (Num()=%d, ctx.Err()=%v, helper goroutine state when the window closed: %q): %v",
					wg.Num(), ctx.Err(), hs, c.Describe()), nil)
		} else {
			r.Inconclusive("C14 hook scenario: not released and not quiescent")
		}
		// release whatever is left so the process can go on
		cancel()
		if wg.Num() > 0 {
			wg.Done()
		}
	})
}

// c14EntryRace aligns the last Done with the waiter's entry into Wait,
// over and over, with two long-lived goroutines and spin-waits: a
// wake-up that is lost between Wait's first look at the counter and its
// parking shows up as a waiter that never returns (decided at
// quiescence).
func c14EntryRace(r *kit.Run, idx int64, rng *rand.Rand) {
	iters := int64(r.Scale(12000, 60000))
	procs := []int{2, 4, 16}[rng.IntN(3)]
	wg := &fun.WaitGroup{}
	var phase, progress atomic.Int64
	stop := make(chan struct{})
	ctx, cancel := context.WithCancel(context.Background())
	defer cancel()
	seedA, seedB := rng.Uint64(), rng.Uint64()
	maxDelay := uint64(1 + rng.IntN(300))
	r.EvalN(1)
	var stuck bool
	var where string
	kit.WithProcs(procs, func() {
		sig := make(chan struct{})
		go func() { // B: the last Done (parked on the channel when idle, so that a stuck state is quiescent)
			rb := rand.New(rand.NewPCG(seedB, 1))
			for {
				select {
				case <-stop:
					return
				case <-sig:
				}
				for k := rb.Uint64N(maxDelay); k > 0; k-- {
					_ = phase.Load()
				}
				wg.Done()
			}
		}()
		done := make(chan struct{})
		go func() { // A: Add, release B, Wait
			defer close(done)
			ra := rand.New(rand.NewPCG(seedA, 2))
			for i := int64(1); i <= iters; i++ {
				wg.Add(1)
				phase.Store(i)
				sig <- struct{}{} // hand-off: both goroutines are runnable now
				for k := ra.Uint64N(maxDelay); k > 0; k-- {
					_ = phase.Load()
				}
				wg.Wait(ctx)
				if ctx.Err() != nil {
					return
				}
				progress.Store(i)
			}
		}()
		if !kit.WaitUntil(4*c14Watchdog, func() bool {
			select {
			case <-done:
				return true
			default:
				return false
			}
		}) {
			cs, q := kit.Quiesce(c14Watchdog)
			select {
			case <-done:
			default:
				if q {
					stuck = true
					where = fmt.Sprintf("iteration %d of %d: Num()=%d; %v", progress.Load()+1, iters, wg.Num(), cs.Describe())
				} else {
					r.Inconclusive("C14 entry race: not finished and not quiescent")
				}
			}
		}
		cancel()
		close(stop)
		<-done
	})
	if stuck {
		r.Violation("C14/entry-race/lost-wakeup", idx, map[string]any{"mode": "Done racing the entry of Wait", "gomaxprocs": procs, "max_spin_delay": maxDelay},
			"the last Done and the waiter's entry into Wait raced; the counter is zero and the waiter is parked for good at "+where, nil)
		return
	}
	r.Count("entry_race_iterations", progress.Load())
	r.Distinct(fmt.Sprintf("entry-race|p=%d|d=%s", procs, lenClass(int(maxDelay)/30)))
}

// c14Invariant checks the counter arithmetic and the negative-Add panic.
func c14Invariant(r *kit.Run, idx int64, rng *rand.Rand) {
	wg := &fun.WaitGroup{}
	model := 0
	var script []string
	r.Eval()
	for step := 0; step < 3+rng.IntN(20); step++ {
		d := rng.IntN(7) - 3
		if d == 0 {
			d = 1
		}
		script = append(script, fmt.Sprintf("Add(%d)", d))
		desc := map[string]any{"script": script, "model_counter": model}
		panicked, pv, _ := kit.Guard(func() {
			switch {
			case d == 1 && rng.IntN(2) == 0:
				wg.Inc()
			case d == -1 && rng.IntN(2) == 0:
				wg.Done()
			default:
				wg.Add(d)
			}
		})
		if model+d < 0 {
			if !panicked {
				r.Violation("C14/invariant/negative-add-accepted", idx, desc, fmt.Sprintf("Add(%d) with the counter at %d did not panic", d, model), nil)
				return
			}
			err, _ := pv.(error)
			if err == nil || !errors.Is(err, ers.ErrInvariantViolation) {
				r.Violation("C14/invariant/wrong-panic", idx, desc, fmt.Sprintf("Add below zero panicked with %v, not an invariant violation", pv), nil)
				return
			}
			r.Count("negative_adds_rejected", 1)
		} else {
			if panicked {
				r.Violation("C14/invariant/spurious-panic", idx, desc, fmt.Sprintf("Add(%d) with the counter at %d panicked: %v", d, model, pv), nil)
				return
			}
			model += d
		}
		if got := wg.Num(); got != model {
			r.Violation("C14/invariant/counter", idx, desc, fmt.Sprintf("Num()=%d, the completed Add/Inc/Done calls sum to %d", got, model), nil)
			return
		}
		if wg.IsDone() != (model == 0) {
			r.Violation("C14/invariant/isdone", idx, desc, fmt.Sprintf("IsDone()=%v with the counter at %d", wg.IsDone(), model), nil)
			return
		}
		// a Wait with counter zero, or with a cancelled context, returns at once
		if model == 0 || rng.IntN(4) == 0 {
			ctx, cancel := context.WithCancel(context.Background())
			if model != 0 {
				cancel()
			}
			ret := make(chan struct{})
			go func() { wg.Wait(ctx); close(ret) }()
			ok := kit.WaitUntil(c14Watchdog/4, func() bool {
				select {
				case <-ret:
					return true
				default:
					return false
				}
			})
			cancel()
			if !ok {
				if _, q := kit.Quiesce(c14Watchdog); isClosed(ret) {
					continue // returned late (slow machine)
				} else if q {
					r.Violation("C14/invariant/wait-blocks", idx, desc, fmt.Sprintf("Wait with counter %d (model) and ctx cancelled=%v does not return", model, model != 0), nil)
				} else {
					r.Inconclusive("C14 invariant: Wait did not return, not quiescent")
				}
				return
			}
		}
	}
	r.Distinct(fmt.Sprintf("inv|%d", len(script)))
}
