package mon

import (
	"context"
	"errors"
	"fmt"
	"math"
	"math/rand/v2"

	"github.com/tychoish/fun/pubsub"
)

// Sequential reference models of pubsub.Queue and pubsub.Deque, written
// from the documentation of QueueOptions / DequeOptions (hard limit,
// soft quota, burst credit) and of the methods. Used under porcupine
// for concurrent histories and in lock-step for sequential scripts.

type limKind uint8

const (
	limUnlimited limKind = iota
	limHard              // Deque Capacity
	limQuota             // QueueOptions
)

// qstate is comparable (porcupine compares states with ==).
type qstate struct {
	Items  string // one byte per queued id, front first
	Kind   limKind
	Soft   int
	Hard   int
	Credit float64
	Closed bool
}

func (s qstate) len() int { return len(s.Items) }

func (s qstate) cap() int {
	switch s.Kind {
	case limUnlimited:
		return math.MaxInt
	case limHard:
		return s.Hard
	}
	return s.Soft
}

// add applies the documented admission rules; it returns the error
// class ("" on success) and the new state.
func (s qstate) add() (string, qstate) {
	switch s.Kind {
	case limUnlimited:
		return "", s
	case limHard:
		if s.len() >= s.Hard {
			return "full", s
		}
		return "", s
	}
	if s.len() >= s.Soft {
		if s.len() == s.Hard {
			return "full", s
		}
		if s.Credit < 1 {
			return "nocredit", s
		}
		s.Credit--
		s.Soft = s.len() + 1
	}
	return "", s
}

// removed adjusts quota and credit after one item left (n = new length).
func (s qstate) removed() qstate {
	if s.Kind != limQuota {
		return s
	}
	n := s.len()
	if n < s.Soft {
		if s.Soft > 1 && n < s.Soft/2 {
			s.Soft--
		}
		s.Credit += float64(s.Soft-n) / float64(s.Soft)
		if lc := float64(s.Hard - s.Soft); s.Credit > lc {
			s.Credit = lc
		}
	}
	return s
}

type qin struct {
	Op string
	V  byte
}

// qout is comparable.
type qout struct {
	V   byte
	Ok  bool
	Err string // "" ok | full | nocredit | closed | ctx | other:<text>
	N   int
}

func (o qout) String() string {
	if o.Err != "" {
		return o.Err
	}
	return fmt.Sprintf("v=%d ok=%v n=%d", o.V, o.Ok, o.N)
}

func errClass(err error) string {
	switch {
	case err == nil:
		return ""
	case errors.Is(err, pubsub.ErrQueueFull):
		return "full"
	case errors.Is(err, pubsub.ErrQueueNoCredit):
		return "nocredit"
	case errors.Is(err, pubsub.ErrQueueClosed):
		return "closed"
	case errors.Is(err, context.Canceled), errors.Is(err, context.DeadlineExceeded):
		return "ctx"
	}
	return "other:" + err.Error()
}

func (s qstate) pushBack(v byte) qstate  { s.Items = s.Items + string([]byte{v}); return s }
func (s qstate) pushFront(v byte) qstate { s.Items = string([]byte{v}) + s.Items; return s }

// queueStep is the sequential specification of pubsub.Queue.
func queueStep(st, in, out any) (bool, any) {
	s, i, o := st.(qstate), in.(qin), out.(qout)
	if o.Err == "ctx" { // an operation that returned a context error has no effect
		switch i.Op {
		case "blockingadd", "wait", "receive":
			return true, s
		}
		return false, s
	}
	switch i.Op {
	case "add", "send":
		if s.Closed {
			return o.Err == "closed", s
		}
		cls, ns := s.add()
		if cls != "" {
			return o.Err == cls, s
		}
		return o.Err == "", ns.pushBack(i.V)
	case "blockingadd":
		if o.Err == "closed" {
			return s.Closed, s
		}
		if o.Err != "" || s.Closed || s.len() >= s.cap() {
			return false, s
		}
		_, ns := s.add()
		return true, ns.pushBack(i.V)
	case "remove":
		if s.len() == 0 {
			return !o.Ok, s
		}
		if !o.Ok || o.V != s.Items[0] {
			return false, s
		}
		s.Items = s.Items[1:]
		return true, s.removed()
	case "wait", "receive":
		if o.Err == "closed" {
			return s.Closed && s.len() == 0, s
		}
		if o.Err != "" || s.len() == 0 || o.V != s.Items[0] {
			return false, s
		}
		s.Items = s.Items[1:]
		return true, s.removed()
	case "len", "distlen":
		return o.N == s.len(), s
	case "close":
		s.Closed = true
		return o.Err == "", s
	}
	return false, s
}

// dequeStep is the sequential specification of pubsub.Deque.
func dequeStep(st, in, out any) (bool, any) {
	s, i, o := st.(qstate), in.(qin), out.(qout)
	if o.Err == "ctx" {
		switch i.Op {
		case "waitfront", "waitback", "waitpushfront", "waitpushback":
			return true, s
		}
		return false, s
	}
	front := func(ns qstate) (byte, qstate) { v := ns.Items[0]; ns.Items = ns.Items[1:]; return v, ns.removed() }
	back := func(ns qstate) (byte, qstate) {
		v := ns.Items[len(ns.Items)-1]
		ns.Items = ns.Items[:len(ns.Items)-1]
		return v, ns.removed()
	}
	switch i.Op {
	case "pushfront", "pushback":
		if s.Closed {
			return o.Err == "closed", s
		}
		cls, ns := s.add()
		if cls != "" {
			return o.Err == cls, s
		}
		if i.Op == "pushfront" {
			return o.Err == "", ns.pushFront(i.V)
		}
		return o.Err == "", ns.pushBack(i.V)
	case "forcepushfront", "forcepushback":
		if s.Closed {
			return o.Err == "closed", s
		}
		ns := s
		if ns.len() == ns.cap() && ns.len() > 0 {
			if i.Op == "forcepushfront" {
				_, ns = back(ns)
			} else {
				_, ns = front(ns)
			}
		}
		cls, ns2 := ns.add()
		if cls != "" {
			return o.Err == cls, s
		}
		if i.Op == "forcepushfront" {
			return o.Err == "", ns2.pushFront(i.V)
		}
		return o.Err == "", ns2.pushBack(i.V)
	case "waitpushfront", "waitpushback":
		if o.Err == "closed" {
			return s.Closed, s
		}
		if o.Err != "" || s.Closed || s.len() >= s.cap() {
			return false, s
		}
		_, ns := s.add()
		if i.Op == "waitpushfront" {
			return true, ns.pushFront(i.V)
		}
		return true, ns.pushBack(i.V)
	case "popfront", "popback":
		if s.Closed || s.len() == 0 {
			return !o.Ok, s
		}
		var v byte
		var ns qstate
		if i.Op == "popfront" {
			v, ns = front(s)
		} else {
			v, ns = back(s)
		}
		return o.Ok && o.V == v, ns
	case "waitfront", "waitback":
		if o.Err == "closed" {
			return s.Closed, s
		}
		if o.Err != "" || s.Closed || s.len() == 0 {
			return false, s
		}
		var v byte
		var ns qstate
		if i.Op == "waitfront" {
			v, ns = front(s)
		} else {
			v, ns = back(s)
		}
		return o.V == v, ns
	case "len":
		return o.N == s.len(), s
	case "close":
		s.Closed = true
		return o.Err == "", s
	}
	return false, s
}

// qconfig draws a valid configuration.
type qconfig struct {
	Kind   limKind
	Hard   int
	Soft   int
	Burst  float64
	Detail string
}

func drawQueueConfig(rng *rand.Rand) qconfig {
	if rng.IntN(5) == 0 {
		return qconfig{Kind: limUnlimited, Detail: "unlimited"}
	}
	hard := 1 + rng.IntN(8)
	if rng.IntN(6) == 0 {
		// only the hard limit is given: both defaults apply (a zero or
		// negative soft quota means the hard limit, zero credit means the
		// soft quota)
		return qconfig{Kind: limQuota, Hard: hard, Soft: -rng.IntN(2), Burst: 0, Detail: fmt.Sprintf("hard=%d only (defaults)", hard)}
	}
	soft := rng.IntN(hard + 1) // 0 means "use the hard limit"
	var burst float64
	switch rng.IntN(5) {
	case 0:
		burst = 0 // means "use the soft quota"
	case 1:
		burst = 0.5
	case 2:
		burst = 1
	case 3:
		burst = 2.5
	default:
		burst = float64(hard)
	}
	return qconfig{Kind: limQuota, Hard: hard, Soft: soft, Burst: burst, Detail: fmt.Sprintf("hard=%d soft=%d burst=%v", hard, soft, burst)}
}

// initial is the documented initial state for the configuration
// (zero soft quota -> hard limit, zero burst credit -> soft quota).
func (c qconfig) initial() qstate {
	s := qstate{Kind: c.Kind, Hard: c.Hard, Soft: c.Soft, Credit: c.Burst}
	if c.Kind == limQuota {
		if s.Soft <= 0 {
			s.Soft = s.Hard
		}
		if s.Credit == 0 {
			s.Credit = float64(s.Soft)
		}
	}
	return s
}

func (c qconfig) newQueue() (*pubsub.Queue[byte], error) {
	if c.Kind == limUnlimited {
		return pubsub.NewUnlimitedQueue[byte](), nil
	}
	return pubsub.NewQueue[byte](pubsub.QueueOptions{HardLimit: c.Hard, SoftQuota: c.Soft, BurstCredit: c.Burst})
}

func drawDequeConfig(rng *rand.Rand) qconfig {
	switch rng.IntN(6) {
	case 0:
		return qconfig{Kind: limUnlimited, Detail: "unlimited"}
	case 1:
		c := drawQueueConfig(rng)
		if c.Kind == limQuota {
			c.Detail = "queueopts " + c.Detail
			return c
		}
	}
	cp := []int{1, 2, 3, 5}[rng.IntN(4)]
	return qconfig{Kind: limHard, Hard: cp, Detail: fmt.Sprintf("capacity=%d", cp)}
}

func (c qconfig) newDeque() (*pubsub.Deque[byte], error) {
	switch c.Kind {
	case limUnlimited:
		return pubsub.NewUnlimitedDeque[byte](), nil
	case limHard:
		return pubsub.NewDeque[byte](pubsub.DequeOptions{Capacity: c.Hard})
	}
	return pubsub.NewDeque[byte](pubsub.DequeOptions{QueueOptions: &pubsub.QueueOptions{HardLimit: c.Hard, SoftQuota: c.Soft, BurstCredit: c.Burst}})
}
