package mon

import (
	"context"
	"errors"
	"fmt"
	"io"
	"math/rand/v2"
	"runtime"
	"strconv"
	"strings"
	"sync"
	"sync/atomic"

	"github.com/tychoish/fun"
	"github.com/tychoish/fun/erc"
	"github.com/tychoish/fun/ers"
	"github.com/tychoish/fun/itertool"

	"verif/kit"
)

// C03 — worker-group error contract: nothing lost, nothing leaked,
// abort stops. Fault enumeration over the classification table
// (ContinueOnError x ContinueOnPanic x IncludeContextExpirationErrors x
// ExcludedErrors x failure kind) crossed with constructs, collectors,
// worker counts and failure positions.

func init() { register("C03", runC03) }

var c03Constructs = []string{"ProcessParallel", "ParallelForEach", "itertool.Worker", "Map", "GenerateParallel"}
var c03Kinds = []string{"plain", "wrapped", "typed", "panic-error", "panic-string", "panic-int", "panic-nilmap", "panic-eof", "panic-skip", "skip", "eof", "abort", "canceled"}
var c03Excluded = []string{"none", "injected", "unrelated"}
var c03Collectors = []string{"default", "erc", "custom"}

func gid() int64 {
	var buf [64]byte
	n := runtime.Stack(buf[:], false)
	s := strings.TrimPrefix(string(buf[:n]), "goroutine ")
	if i := strings.IndexByte(s, ' '); i > 0 {
		v, _ := strconv.ParseInt(s[:i], 10, 64)
		return v
	}
	return -1
}

type c03Case struct {
	Construct string `json:"construct"`
	ContErr   bool   `json:"continue_on_error"`
	ContPanic bool   `json:"continue_on_panic"`
	InclCtx   bool   `json:"include_context_errors"`
	Excluded  string `json:"excluded_errors"`
	ExclHow   string `json:"excluded_errors_configured_by,omitempty"`
	Collector string `json:"collector"`
	Kind      string `json:"failure_kind"`
	W         int    `json:"workers"`
	N         int    `json:"items"`
	Pos       []int  `json:"fail_positions"`
	Late      bool   `json:"second_failure_returns_after_first"`
	Comp      int    `json:"item_that_returns_ErrCurrentOpAbort,omitempty"` // 1-based; 0 = none
	Procs     int    `json:"gomaxprocs"`
	Speed     string `json:"worker_speed"`
}

type c03Inv struct {
	id        int
	g         int64
	call, ret int64
	failed    bool
}

// failure builds the injected failure for a position: what the user
// function returns (or panics with) and how to find it in the result.
type c03Failure struct {
	ret     error
	panicV  any
	find    []error // errors.Is targets that must be found when reported
	contain string  // substring of the result's text (panic with a non-error value)
	comp    bool    // the accompanying abort sentinel, not one of the judged failures
}

func c03MakeFailure(kind string, pos int, base error) c03Failure {
	switch kind {
	case "plain":
		return c03Failure{ret: base, find: []error{base}}
	case "wrapped":
		return c03Failure{ret: fmt.Errorf("ctx %d: %w", pos, base), find: []error{base}}
	case "typed":
		return c03Failure{ret: base, find: []error{base}}
	case "panic-error":
		return c03Failure{panicV: base, find: []error{base, fun.ErrRecoveredPanic}}
	case "panic-string":
		s := fmt.Sprintf("boom@%d", pos)
		return c03Failure{panicV: s, find: []error{ers.Error(s), fun.ErrRecoveredPanic}}
	case "panic-int":
		return c03Failure{panicV: 770000 + pos, find: []error{fun.ErrRecoveredPanic}, contain: strconv.Itoa(770000 + pos)}
	case "panic-nilmap":
		// a panic whose value is a nil map stored in the interface: recover()
		// returns a non-nil interface, so this is a panic like any other
		return c03Failure{panicV: map[string]int(nil), find: []error{fun.ErrRecoveredPanic}}
	case "panic-eof":
		return c03Failure{panicV: io.EOF, find: []error{io.EOF, fun.ErrRecoveredPanic}}
	case "panic-skip":
		return c03Failure{panicV: fmt.Errorf("p%d: %w", pos, fun.ErrIteratorSkip), find: []error{fun.ErrRecoveredPanic}}
	case "skip":
		return c03Failure{ret: fun.ErrIteratorSkip}
	case "eof":
		return c03Failure{ret: io.EOF}
	case "abort":
		return c03Failure{ret: ers.ErrCurrentOpAbort}
	case "canceled":
		return c03Failure{ret: context.Canceled, find: []error{context.Canceled}}
	}
	panic(kind)
}

// classify: is the failure reported, does the group continue.
func (c c03Case) classify() (reported, continues, asserted bool) {
	switch c.Kind {
	case "plain", "wrapped", "typed":
		return c.Excluded != "injected", c.ContErr, true
	case "panic-error", "panic-string", "panic-int", "panic-nilmap", "panic-eof", "panic-skip":
		return true, c.ContPanic, true
	case "skip":
		return false, true, true
	case "eof":
		return false, false, true
	case "canceled":
		return c.InclCtx, false, true
	}
	return false, false, false // ErrCurrentOpAbort: exercised, not asserted (DESIGN 7c)
}

type customCollector struct {
	mu   sync.Mutex
	errs []error
}

func (c *customCollector) add(e error) {
	if e != nil {
		c.mu.Lock()
		c.errs = append(c.errs, e)
		c.mu.Unlock()
	}
}
func (c *customCollector) resolve() error {
	c.mu.Lock()
	defer c.mu.Unlock()
	return errors.Join(c.errs...)
}

func runC03(r *kit.Run) {
	// the classification table is enumerated completely in both tiers;
	// positions / workers / collectors / speeds are drawn per cell, and
	// the thorough tier repeats every cell many times with other draws
	reps := int64(r.Scale(1, 360))
	if r.Build != "plain" {
		reps = 2
	}
	cell := int64(0)
	for rep := int64(0); rep < reps; rep++ {
		for _, construct := range c03Constructs {
			for flags := 0; flags < 8; flags++ {
				for _, ex := range c03Excluded {
					for _, kind := range c03Kinds {
						cell++
						if !r.Mine(cell) || r.Stopped() {
							continue
						}
						rng := r.Rng("cell", cell)
						c := c03Case{Construct: construct, ContErr: flags&1 != 0, ContPanic: flags&2 != 0, InclCtx: flags&4 != 0, Excluded: ex, Kind: kind}
						c.Collector = c03Collectors[rng.IntN(3)]
						if ex == "injected" {
							c.ExclHow = []string{"one Add call", "two Add calls", "Set(conf) then Add(others)", "one Add call, list with unset (nil) entries"}[rng.IntN(4)]
						}
						c.W = []int{1, 2, 4, 8}[rng.IntN(4)]
						c.N = 50*c.W + rng.IntN(40)
						if rng.IntN(4) == 0 {
							c.N = 1 + rng.IntN(12)
						}
						switch rng.IntN(6) {
						case 5:
							// two adjacent failures, the second one returns only
							// after the first has (a sibling still in flight when
							// the group aborts)
							a := rng.IntN(c.N)
							if a+1 < c.N {
								c.Pos, c.Late = []int{a, a + 1}, true
							} else {
								c.Pos = []int{a}
							}
						case 0:
							c.Pos = []int{0}
						case 1:
							c.Pos = []int{c.N - 1}
						case 2:
							c.Pos = []int{c.N / 2}
						case 3:
							c.Pos = []int{rng.IntN(c.N)}
						default:
							a, b := rng.IntN(c.N), rng.IntN(c.N)
							if a == b {
								c.Pos = []int{a}
							} else {
								c.Pos = []int{min(a, b), max(a, b)}
							}
						}
						c.Procs = kit.ProcsFor(cell)
						if rep, _, _ := c.classify(); rep && c.N >= 3 && rng.IntN(4) == 0 {
							// an extra run of this cell in which one more item gives up with
							// (a wrapper of) ErrCurrentOpAbort: the judged failures that
							// happened are still reported next to it
							c2 := c
							for try := 0; try < 8 && c2.Comp == 0; try++ {
								q := rng.IntN(c.N)
								if q != c.Pos[0] && q != c.Pos[len(c.Pos)-1] {
									c2.Comp = q + 1
								}
							}
							if c2.Comp > 0 {
								c03Run(r, cell, c2, r.Rng("comp", cell), false)
							}
						}
						if c.Construct == "GenerateParallel" && c.Kind == "eof" {
							continue // io.EOF from a generator is the natural end of that worker's input, not a failure
						}
						if after, exceeded := c03Run(r, cell, c, rng, false); exceeded {
							// "bounded by the number of workers rather than the rest of the
							// input being consumed": the bound was exceeded once. The time
							// between the failing call's return stamp and the moment the
							// abort takes effect includes whatever the scheduler does to the
							// failing goroutine's thread (on a loaded machine: milliseconds),
							// so one exceedance is noise. A genuine "abort does not stop" is
							// systematic: report it when the rest of the input is consumed
							// (>= 90% of what was left) here and in every one of three
							// re-executions of the same case.
							r.Count("abort_bound_exceeded(noise unless confirmed)", 1)
							again := 0
							if after.consumedRest() {
								for k := 0; k < 3; k++ {
									if a2, ex := c03Run(r, cell, c, r.Rng("cell", cell), true); ex && a2.consumedRest() {
										again++
									}
								}
							}
							if again == 3 {
								r.Violation("C03/"+c.Construct+"/abort-does-not-stop", cell, c,
									fmt.Sprintf("%d of the %d items that were left when the first failure returned were started afterwards (bound for a working abort: %d), in this and in 3 of 3 re-executions", after.after, after.remaining, c03Bound(c)), nil)
							}
						}
					}
				}
			}
		}
	}
}

// c03Run executes one cell. It returns the number of items started after
// the first failure returned and whether that exceeds the bound (the
// caller confirms an exceedance by re-execution before reporting it).
type c03After struct{ after, remaining int }

func (a c03After) consumedRest() bool { return a.remaining > 0 && a.after*10 >= a.remaining*9 }

func c03Run(r *kit.Run, idx int64, c c03Case, rng *rand.Rand, quiet bool) (afterFailure c03After, exceeded bool) {
	speed := kit.RandSpeed(rng)
	c.Speed = speed.String()
	seed := rng.Uint64()
	r.Eval()
	r.Current(idx, fmt.Sprintf("%+v", c))
	reported, continues, asserted := c.classify()

	failures := map[int]c03Failure{}
	var injectedBases []error
	for _, p := range c.Pos {
		var base error
		if c.Kind == "typed" {
			base = &typedErr{ID: p, Msg: "injected"}
		} else {
			base = fmt.Errorf("injected@%d", p)
		}
		injectedBases = append(injectedBases, base)
		failures[p] = c03MakeFailure(c.Kind, p, base)
	}
	if c.Comp > 0 {
		failures[c.Comp-1] = c03Failure{ret: fmt.Errorf("giving up on %d: %w", c.Comp, ers.ErrCurrentOpAbort), comp: true}
	}
	var compHappened atomic.Bool
	// invocation records are written lock-free (one slot per item id): a
	// monitor mutex taken between the return stamp and the actual return
	// would delay the failing goroutine under contention and make other
	// workers look as if they started "after the failure returned"
	slots := make([]c03Inv, c.N+2)
	counts := make([]atomic.Int32, c.N+2)
	var firstFailRet atomic.Int64
	// user is the processing function body for item id (1-based)
	user := func(id int) (err error) {
		g := gid()
		f, isFail := failures[id-1]
		call := kit.Stamp()
		speed.Pace(id, c.N, seed+uint64(id))
		if !isFail && !continues && firstFailRet.Load() != 0 {
			// an item that starts after a failure takes a realistic amount of
			// time: with instantaneous items the other workers get through
			// hundreds of them in the microseconds any abort needs to take
			// effect, and "bounded by the number of workers" would be a
			// statement about throughput, not about the abort
			kit.Yields(200)
			kit.Speed(kit.SlowFirst).Pace(0, 1, 0)
		}
		if isFail && c.Late && id-1 == c.Pos[len(c.Pos)-1] {
			for k := 0; k < 20000 && firstFailRet.Load() == 0; k++ {
				runtime.Gosched()
			}
			kit.Yields(300)
		}
		first := id >= 0 && id < len(counts) && counts[id].Add(1) == 1
		ret := kit.Stamp() // the last thing before returning
		if first {
			slots[id] = c03Inv{id: id, g: g, call: call, ret: ret, failed: isFail && !f.comp}
			if isFail && f.comp {
				compHappened.Store(true)
			}
		}
		if isFail {
			if c.Kind != "skip" {
				firstFailRet.CompareAndSwap(0, ret)
			}
			if f.panicV != nil {
				panic(f.panicV)
			}
			return f.ret
		}
		return nil
	}

	var opts []fun.OptionProvider[*fun.WorkerGroupConf]
	if c.Excluded == "injected" && c.ExclHow == "Set(conf) then Add(others)" {
		// the list arrives with a whole configuration, more is added later
		opts = append(opts, fun.WorkerGroupConfSet(&fun.WorkerGroupConf{ExcludedErrors: append([]error(nil), injectedBases...)}))
	}
	opts = append(opts, fun.WorkerGroupConfNumWorkers(c.W))
	if c.ContErr {
		opts = append(opts, fun.WorkerGroupConfContinueOnError())
	}
	if c.ContPanic {
		opts = append(opts, fun.WorkerGroupConfContinueOnPanic())
	}
	if c.InclCtx {
		opts = append(opts, fun.WorkerGroupConfIncludeContextErrors())
	}
	switch c.Excluded {
	case "injected":
		switch c.ExclHow {
		case "Set(conf) then Add(others)":
			opts = append(opts, fun.WorkerGroupConfAddExcludeErrors(errors.New("unrelated")))
		case "two Add calls":
			opts = append(opts, fun.WorkerGroupConfAddExcludeErrors(injectedBases...), fun.WorkerGroupConfAddExcludeErrors(errors.New("unrelated"), ers.ErrInvalidInput))
		case "one Add call, list with unset (nil) entries":
			// optional sentinels that happen to be unset: nil entries exclude nothing
			// and do not end the list
			withNil := append([]error{nil, errors.New("unrelated"), nil}, injectedBases...)
			opts = append(opts, fun.WorkerGroupConfAddExcludeErrors(append(withNil, nil)...))
		default:
			opts = append(opts, fun.WorkerGroupConfAddExcludeErrors(injectedBases...))
		}
	case "unrelated":
		opts = append(opts, fun.WorkerGroupConfAddExcludeErrors(errors.New("unrelated"), ers.ErrInvalidInput))
	}
	cc := &customCollector{}
	ercc := &erc.Collector{}
	// for Map / GenerateParallel a configured collector receives the
	// failures instead of the output iterator: the report is the union
	collected := func(closeErr error) error {
		switch c.Collector {
		case "erc":
			return ers.Join(closeErr, ercc.Resolve())
		case "custom":
			return ers.Join(closeErr, cc.resolve())
		}
		return closeErr
	}
	switch c.Collector {
	case "erc":
		opts = append(opts, fun.WorkerGroupConfWithErrorCollector(ercc))
	case "custom":
		opts = append(opts, fun.WorkerGroupConfErrorCollectorPair(cc.add, cc.resolve))
	}

	xs := make([]int, c.N)
	for i := range xs {
		xs[i] = i + 1
	}
	ctx, cancel := context.WithCancel(context.Background())
	defer cancel()
	var result error
	var outputs []int
	body := func() {
		switch c.Construct {
		case "ProcessParallel":
			result = fun.SliceIterator(xs).ProcessParallel(func(_ context.Context, id int) error { return user(id) }, opts...).Run(ctx)
		case "ParallelForEach":
			result = itertool.ParallelForEach(ctx, fun.SliceIterator(xs), func(_ context.Context, id int) error { return user(id) }, opts...)
		case "itertool.Worker":
			ws := make([]fun.Worker, c.N)
			for i := range ws {
				id := i + 1
				ws[i] = func(context.Context) error { return user(id) }
			}
			result = itertool.Worker(ctx, fun.SliceIterator(ws), opts...)
		case "Map":
			out := fun.Map(fun.SliceIterator(xs), func(_ context.Context, id int) (int, error) { return id, user(id) }, opts...)
			for {
				v, err := out.ReadOne(ctx)
				if err != nil {
					break
				}
				outputs = append(outputs, v)
			}
			result = collected(out.Close())
		case "GenerateParallel":
			var ctr atomic.Int64
			gen := fun.Producer[int](func(context.Context) (int, error) {
				id := int(ctr.Add(1))
				if id > c.N {
					return 0, io.EOF
				}
				return id, user(id)
			})
			out := gen.GenerateParallel(opts...)
			for {
				v, err := out.ReadOne(ctx)
				if err != nil {
					break
				}
				outputs = append(outputs, v)
			}
			result = collected(out.Close())
		}
	}
	done := make(chan struct{})
	var escaped atomic.Value
	stuck := false
	kit.WithProcs(c.Procs, func() {
		go func() {
			defer close(done)
			defer func() {
				if p := recover(); p != nil {
					escaped.Store(fmt.Sprint(p))
				}
			}()
			body()
		}()
		if !kit.WaitUntil(c14Watchdog/2, func() bool {
			select {
			case <-done:
				return true
			default:
				return false
			}
		}) {
			cs, q := kit.Quiesce(c14Watchdog)
			if isClosed(done) {
				// finished late (slow machine): not a verdict
			} else {
				stuck = true
				if q {
					r.Violation("C03/"+c.Construct+"/no-termination", idx, c, fmt.Sprintf("the worker group never finished; at quiescence: %v", cs.Describe()), nil)
				} else {
					r.Inconclusive("C03 case did not finish and is not quiescent")
				}
				cancel()
				<-done
			}
		}
	})
	if stuck {
		return
	}
	viol := func(kind, detail string) {
		if quiet {
			return
		}
		r.Violation("C03/"+c.Construct+"/"+kind, idx, c, detail, map[string]any{"result": fmt.Sprint(result)})
	}
	if p := escaped.Load(); p != nil {
		viol("escaped-panic", "a panic escaped the worker group: "+p.(string))
		return
	}
	if !asserted {
		r.Count("unasserted_cells(ErrCurrentOpAbort)", 1)
		return
	}
	// which failures actually happened
	var happened []int
	var invs []c03Inv
	invCount := map[int]int{}
	for id := range slots {
		if n := int(counts[id].Load()); n > 0 {
			invCount[id] = n
			invs = append(invs, slots[id])
			if slots[id].failed {
				happened = append(happened, id-1)
			}
		}
	}
	for id, n := range invCount {
		if n > 1 {
			viol("item-processed-twice", fmt.Sprintf("item %d was handed to the user function %d times", id, n))
			return
		}
	}
	// (2)/(3)/(4) reporting
	anyReportable := reported && len(happened) > 0
	if anyReportable && result == nil {
		viol("failure-swallowed", fmt.Sprintf("%d %s failure(s) occurred (positions %v) and the result is nil", len(happened), c.Kind, happened))
		return
	}
	if !anyReportable && result != nil && c.InclCtx && !continues && onlyContextErrors(result) {
		// the group's own abort cancelled the workers' context and
		// IncludeContextExpirationErrors asks for context errors: tolerated
		r.Count("context_errors_from_internal_abort_reported", 1)
	} else if !anyReportable && result != nil && compHappened.Load() {
		// the accompanying ErrCurrentOpAbort is an ordinary error for the collector
	} else if !anyReportable && result != nil {
		viol("unreportable-reported", fmt.Sprintf("no reportable failure occurred (%s, excluded=%s, include-ctx=%v) but the result is %v", c.Kind, c.Excluded, c.InclCtx, result))
		return
	}
	if reported {
		for _, p := range happened {
			f := failures[p]
			for _, target := range f.find {
				if !errors.Is(result, target) {
					viol("failure-lost", fmt.Sprintf("the failure at position %d happened, errors.Is(result, %v) is false; result: %v", p, target, result))
					return
				}
			}
			if f.contain != "" && !strings.Contains(result.Error(), f.contain) {
				viol("failure-lost", fmt.Sprintf("the panic value of position %d (%s) does not appear in the result %v", p, f.contain, result))
				return
			}
		}
	}
	if result != nil {
		for _, never := range []error{fun.ErrIteratorSkip} {
			if c.Kind != "panic-skip" && errors.Is(result, never) {
				viol("unreportable-reported", fmt.Sprintf("%v is part of the result %v", never, result))
				return
			}
		}
		if c.Kind != "panic-eof" && errors.Is(result, io.EOF) {
			viol("unreportable-reported", fmt.Sprintf("io.EOF is part of the result %v", result))
			return
		}
		if !c.InclCtx && errors.Is(result, context.Canceled) {
			viol("unreportable-reported", fmt.Sprintf("a context error is part of the result %v without IncludeContextExpirationErrors", result))
			return
		}
	}
	if c.Comp > 0 {
		// with the abort sentinel in the run only the reporting clauses are judged
		r.Count("cells_with_an_accompanying_ErrCurrentOpAbort", 1)
		r.Count("failures_observed", int64(len(happened)))
		return c03After{}, false
	}
	if continues {
		// (5) every item processed exactly once, every output present
		if len(invCount) != c.N {
			viol("items-skipped-in-continue-mode", fmt.Sprintf("%d of %d items were processed although the group is configured to continue", len(invCount), c.N))
			return
		}
		if c.Construct == "Map" || c.Construct == "GenerateParallel" {
			want := map[int]bool{}
			for id := 1; id <= c.N; id++ {
				if _, bad := failures[id-1]; !bad {
					want[id] = true
				}
			}
			got := map[int]int{}
			for _, v := range outputs {
				got[v]++
			}
			for id := range want {
				if got[id] != 1 {
					viol("output-lost", fmt.Sprintf("item %d was processed successfully but appears %d times in the output", id, got[id]))
					return
				}
			}
			for v := range got {
				if !want[v] {
					viol("output-invented", fmt.Sprintf("the output contains %d, which failed or was never an input", v))
					return
				}
			}
		}
	} else if len(happened) > 0 {
		// (6) abort: the failing goroutine handles no further item and
		// the number of items started after the first failure returned
		// is bounded by the number of workers
		ff := firstFailRet.Load()
		after := 0
		failG := map[int64]int64{}
		for _, iv := range invs {
			if iv.failed {
				if t, ok := failG[iv.g]; !ok || iv.ret < t {
					failG[iv.g] = iv.ret
				}
			}
		}
		for _, iv := range invs {
			if iv.call > ff {
				after++
			}
			if t, ok := failG[iv.g]; ok && iv.call > t {
				viol("failing-worker-continued", fmt.Sprintf("the worker goroutine that returned the failure (stamp %d) handled item %d afterwards (stamp %d)", t, iv.id, iv.call))
				return
			}
		}
		bound := 2*c.W + 1
		if c.Construct == "GenerateParallel" {
			// a generator that ignores its context keeps being called
			// while the select between "cancelled" and "room in the
			// output buffer" picks the send: a geometric number of extra
			// calls per worker, still independent of the input size
			bound = 8*c.W + 16
		}
		if after > bound {
			before := 0
			for _, iv := range invs {
				if iv.call <= ff {
					before++
				}
			}
			return c03After{after: after, remaining: c.N - before}, true
		}
		r.Max("max:started_after_failure", int64(after))
	}
	r.Distinct(fmt.Sprintf("%s|e=%v|p=%v|c=%v|x=%s|k=%s", c.Construct, c.ContErr, c.ContPanic, c.InclCtx, c.Excluded, c.Kind))
	r.Count("cells", 1)
	r.Count("failures_observed", int64(len(happened)))
	if r.WantSample() && len(c.Pos) > 1 {
		r.Sample(c)
	}
	return c03After{}, false
}

func onlyContextErrors(err error) bool {
	for _, e := range ers.Unwind(err) {
		if !errors.Is(e, context.Canceled) && !errors.Is(e, context.DeadlineExceeded) {
			return false
		}
	}
	return true
}

func c03Bound(c c03Case) int {
	if c.Construct == "GenerateParallel" {
		return 8*c.W + 16
	}
	return 2*c.W + 1
}
