package mon

import (
	"context"
	"encoding/json"
	"fmt"
	"math/rand/v2"
	"runtime"
	"sort"
	"strings"
	"sync"
	"sync/atomic"
	"time"

	"github.com/anishathalye/porcupine"
	"github.com/tychoish/fun"
	"github.com/tychoish/fun/dt"

	"verif/kit"
)

// C18 — dt.Set behaves as a mathematical set (optionally insertion
// ordered). Lock-step reference model for sequential programs and a
// porcupine-checked history for concurrent use of a synchronized set.

func init() { register("C18", runC18) }

type setModel struct {
	mem     map[int]bool
	order   []int // insertion (or sorted) order; meaningful when ordered
	ordered bool
}

func newSetModel(ordered bool) *setModel { return &setModel{mem: map[int]bool{}, ordered: ordered} }

func (m *setModel) add(v int) bool {
	if m.mem[v] {
		return true
	}
	m.mem[v] = true
	m.order = append(m.order, v)
	return false
}

func (m *setModel) del(v int) bool {
	if !m.mem[v] {
		return false
	}
	delete(m.mem, v)
	for i, x := range m.order {
		if x == v {
			m.order = append(m.order[:i:i], m.order[i+1:]...)
			break
		}
	}
	return true
}

func (m *setModel) sorted() []int {
	out := make([]int, 0, len(m.mem))
	for k := range m.mem {
		out = append(out, k)
	}
	sort.Ints(out)
	return out
}

func setIter(s *dt.Set[int], capN int) ([]int, error) {
	it := s.Iterator()
	var out []int
	ctx := context.Background()
	for k := 0; k < capN+4 && it.Next(ctx); k++ {
		out = append(out, it.Value())
	}
	return out, it.Close()
}

func (m *setModel) compare(s *dt.Set[int]) (string, string) {
	if s.Len() != len(m.mem) {
		return "len-mismatch", fmt.Sprintf("Len()=%d, model has %v", s.Len(), m.sorted())
	}
	got, _ := setIter(s, len(m.mem))
	if m.ordered {
		if !eqInts(got, m.order) {
			return "iteration-order", fmt.Sprintf("iterator yields %v, model order %v", got, m.order)
		}
	} else {
		g := append([]int(nil), got...)
		sort.Ints(g)
		if !eqInts(g, m.sorted()) {
			return "iteration-members", fmt.Sprintf("iterator yields %v, model members %v", got, m.sorted())
		}
	}
	for v := -1; v < 9; v++ {
		if s.Check(v) != m.mem[v] {
			return "check-mismatch", fmt.Sprintf("Check(%d)=%v, model %v", v, s.Check(v), m.mem[v])
		}
	}
	return "", ""
}

func (m *setModel) equal(o *setModel) bool {
	if len(m.mem) != len(o.mem) {
		return false
	}
	for k := range m.mem {
		if !o.mem[k] {
			return false
		}
	}
	if m.ordered {
		return eqInts(m.order, o.order)
	}
	return true
}

func runC18(r *kit.Run) {
	n := int64(r.Scale(20000, 3000000))
	for i := int64(0); i < n && !r.Stopped(); i++ {
		if !r.Mine(i) {
			continue
		}
		c18Script(r, i, r.Rng("seq", i))
	}
	ne := int64(r.Scale(8, 300))
	for i := int64(0); i < ne && !r.Stopped(); i++ {
		if !r.Mine(i) {
			continue
		}
		c18EqualThenMutate(r, i, r.Rng("eqmut", i))
	}
	nw := int64(r.Scale(16, 200))
	for i := int64(0); i < nw && !r.Stopped(); i++ {
		if !r.Mine(i) {
			continue
		}
		c18Winner(r, i, r.Rng("winner", i))
	}
	nh := int64(r.Scale(1500, 120000))
	for i := int64(0); i < nh && !r.Stopped(); i++ {
		if !r.Mine(i) {
			continue
		}
		c18History(r, i, r.Rng("conc", i))
	}
	nfu := int64(r.Scale(8, 200))
	for i := int64(0); i < nfu && !r.Stopped(); i++ {
		if !r.Mine(i) {
			continue
		}
		c18FirstUse(r, i, r.Rng("firstuse", i))
	}
	nsa := int64(r.Scale(24, 600))
	for i := int64(0); i < nsa && !r.Stopped(); i++ {
		if !r.Mine(i) {
			continue
		}
		c18SortUnderAdd(r, i, r.Rng("sortadd", i))
	}
}

// c18FirstUse: the very first calls on a synchronized, otherwise
// untouched set come from several goroutines at once (whatever is set up
// lazily is set up by whichever call comes first). Each goroutine adds
// its own value: afterwards all of them are members.
func c18FirstUse(r *kit.Run, idx int64, rng *rand.Rand) {
	G := 2 + rng.IntN(3)
	rounds := 3000
	procs := []int{2, 4, 16}[rng.IntN(3)]
	desc := map[string]any{"goroutines": G, "rounds": rounds, "gomaxprocs": procs}
	r.Eval()
	r.Current(idx, fmt.Sprintf("C18 first-use %v", desc))
	bad := ""
	kit.WithProcs(procs, func() {
		sets := make([]*dt.Set[int], rounds)
		for k := range sets {
			sets[k] = &dt.Set[int]{}
			sets[k].Synchronize()
		}
		var arrived = make([]atomic.Int32, rounds)
		var wg sync.WaitGroup
		var fatal atomic.Value
		for g := 0; g < G; g++ {
			wg.Add(1)
			go func(g int) {
				defer wg.Done()
				defer func() {
					if p := recover(); p != nil {
						fatal.Store(fmt.Sprint(p))
					}
				}()
				for k := 0; k < rounds; k++ {
					arrived[k].Add(1)
					for spin := 0; spin < 2000 && int(arrived[k].Load()) < G; spin++ {
						if spin%64 == 63 {
							runtime.Gosched()
						}
					}
					sets[k].AddCheck(g)
				}
			}(g)
		}
		wg.Wait()
		if p := fatal.Load(); p != nil {
			bad = "panic: " + p.(string)
			return
		}
		for k, s := range sets {
			if s.Len() != G {
				bad = fmt.Sprintf("round %d: %d goroutines each added their own value as their first call on a fresh synchronized set, Len()=%d", k, G, s.Len())
				return
			}
			for g := 0; g < G; g++ {
				if !s.Check(g) {
					bad = fmt.Sprintf("round %d: value %d was added (AddCheck returned) and is not a member", k, g)
					return
				}
			}
		}
	})
	if bad != "" {
		r.Violation("C18/Set.first-use/lost-add", idx, desc, bad, nil)
		return
	}
	r.Distinct(fmt.Sprintf("firstuse|g=%d|p=%d", G, procs))
	r.Count("first_use_rounds", int64(rounds))
}

// c18SortUnderAdd: a large synchronized, ordered set is sorted again and
// again while another goroutine keeps adding new values. Whatever order
// the calls take effect in, no member may get lost or doubled: after the
// adder has stopped the iterator yields every member exactly once.
func c18SortUnderAdd(r *kit.Run, idx int64, rng *rand.Rand) {
	size := 1500 + rng.IntN(3000)
	sorts := 3 + rng.IntN(6)
	merge := rng.IntN(3) != 0
	procs := kit.ProcsFor(idx)
	if procs < 2 {
		procs = 2
	}
	desc := map[string]any{"initial_members": size, "sorts": sorts, "algorithm": map[bool]string{true: "SortMerge", false: "SortQuick"}[merge], "gomaxprocs": procs}
	s := &dt.Set[int]{}
	s.Synchronize()
	s.Order()
	for _, v := range rng.Perm(size) {
		s.Add(v)
	}
	var added atomic.Int64
	var stop atomic.Bool
	var fatal atomic.Value
	r.Eval()
	r.Current(idx, fmt.Sprintf("C18 sort-under-add %v", desc))
	kit.WithProcs(procs, func() {
		var wg sync.WaitGroup
		wg.Add(1)
		go func() {
			defer wg.Done()
			defer func() {
				if p := recover(); p != nil {
					fatal.Store(fmt.Sprint(p))
				}
			}()
			for v := size; !stop.Load(); v++ {
				s.Add(v)
				added.Add(1)
				if v%50 == 0 {
					s.Synchronize() // safe to call more than once: a no-op here
				}
			}
		}()
		func() {
			defer func() {
				if p := recover(); p != nil {
					fatal.Store(fmt.Sprint(p))
				}
			}()
			lt := func(a, b int) bool { return a < b }
			for k := 0; k < sorts; k++ {
				if merge {
					s.SortMerge(lt)
				} else {
					s.SortQuick(lt)
				}
			}
		}()
		stop.Store(true)
		wg.Wait()
	})
	if p := fatal.Load(); p != nil {
		r.Violation("C18/Set.sort-under-add/panic", idx, desc, p.(string), nil)
		return
	}
	total := size + int(added.Load())
	desc["added_meanwhile"] = added.Load()
	seen := make(map[int]int, total)
	n := 0
	it := s.Iterator()
	for it.Next(context.Background()) {
		seen[it.Value()]++
		n++
		if n > 2*total+10 {
			break
		}
	}
	_ = it.Close()
	if s.Len() != total {
		r.Violation("C18/Set.sort-under-add/len", idx, desc, fmt.Sprintf("Len()=%d after %d distinct values were added", s.Len(), total), nil)
		return
	}
	if n != total {
		r.Violation("C18/Set.sort-under-add/iterator-count", idx, desc, fmt.Sprintf("the set has %d members, the iterator yields %d values", total, n), nil)
		return
	}
	for v := 0; v < total; v++ {
		if seen[v] != 1 {
			r.Violation("C18/Set.sort-under-add/iterator-members", idx, desc, fmt.Sprintf("member %d is yielded %d times by the iterator (%d members)", v, seen[v], total), nil)
			return
		}
	}
	if added.Load() > 0 {
		r.Distinct(fmt.Sprintf("sortadd|%v|%s|p=%d", merge, lenClass(sorts), procs))
	}
	r.Count("sort_under_add_values_added_during_sorts", added.Load())
}

// c18EqualThenMutate: a sequential program compares two unordered sets
// and modifies one of them right afterwards. The comparison must be over
// when Equal returns (found by the thorough tier: Equal returned early
// and left a map iterator goroutine advancing over the map, which the
// next Add/Delete turned into "fatal error: concurrent map iteration and
// map write" — process-fatal, attributed through the .cur file).
func c18EqualThenMutate(r *kit.Run, idx int64, rng *rand.Rand) {
	rounds := 10000
	procs := []int{2, 4, 16}[rng.IntN(3)]
	r.Eval()
	r.Current(idx, "C18 Equal (false) on unordered sets immediately followed by Add/Delete")
	kit.WithProcs(procs, func() {
		for i := 0; i < rounds; i++ {
			a, b := &dt.Set[int]{}, &dt.Set[int]{}
			n := 1 + rng.IntN(4)
			for k := 0; k < n; k++ {
				a.Add(k)
				if rng.IntN(2) == 0 {
					b.Add(k + 1)
				} else {
					b.Add(100 + k)
				}
			}
			eq := a.Equal(b)
			if rng.IntN(2) == 0 {
				a.Delete(rng.IntN(n))
			} else {
				a.Add(50 + i%7)
			}
			if eq {
				r.Violation("C18/Set.Equal/true-for-different-sets", idx, nil, "Equal reported true for sets with different members", nil)
				return
			}
		}
	})
	r.Count("equal_then_mutate_rounds", int64(rounds))
	r.Distinct(fmt.Sprintf("equal-then-mutate|p=%d", procs))
}

// c18Winner: G long-lived goroutines, aligned by a spinning cyclic
// barrier, call AddCheck (then DeleteCheck) for the same value on a
// synchronized set; whatever the order, exactly one of them finds the
// value absent (present).
func c18Winner(r *kit.Run, idx int64, rng *rand.Rand) {
	G := 2 + rng.IntN(5)
	ordered := rng.IntN(2) == 0
	rounds := 3000
	procs := 16
	s := &dt.Set[int]{}
	s.Synchronize()
	if ordered {
		s.Order()
	}
	desc := map[string]any{"mode": "same-value race", "goroutines": G, "ordered": ordered, "rounds": rounds, "gomaxprocs": procs}
	r.Eval()
	absent := make([]atomic.Int32, rounds)  // AddCheck calls that found the value absent
	present := make([]atomic.Int32, rounds) // DeleteCheck calls that found it present
	var arrive atomic.Int64
	barrier := func(target int64) {
		arrive.Add(1)
		for spins := 0; arrive.Load() < target; spins++ {
			if spins%200 == 199 {
				runtime.Gosched()
			}
		}
	}
	// on an oversubscribed machine a spinning barrier costs milliseconds per
	// round: goroutine 0 ends the case after a time budget (this bounds the
	// amount of exploration only, never a verdict)
	var stopAt atomic.Int64
	stopAt.Store(int64(rounds))
	t0 := time.Now()
	kit.WithProcs(procs, func() {
		var wg sync.WaitGroup
		for g := 0; g < G; g++ {
			wg.Add(1)
			g := g
			go func() {
				defer wg.Done()
				for v := 0; int64(v) < stopAt.Load(); v++ {
					if g == 0 && v%64 == 0 && time.Since(t0) > 2*time.Second {
						stopAt.Store(int64(v + 1))
					}
					barrier(int64(G) * int64(2*v+1))
					if !s.AddCheck(v) {
						absent[v].Add(1)
					}
					barrier(int64(G) * int64(2*v+2))
					if s.DeleteCheck(v) {
						present[v].Add(1)
					}
				}
			}()
		}
		wg.Wait()
	})
	rounds = int(stopAt.Load())
	for v := 0; v < rounds; v++ {
		if a, p := absent[v].Load(), present[v].Load(); a != 1 || p != 1 {
			r.Violation("C18/Set.concurrent/same-value-race", idx, desc,
				fmt.Sprintf("round %d: of %d concurrent AddCheck(%d) calls %d found the value absent, of %d concurrent DeleteCheck(%d) calls %d found it present; exactly one each is possible in any sequential order", v, G, v, a, G, v, p), nil)
			return
		}
	}
	if got, _ := setIter(s, 4); len(got) != 0 || s.Len() != 0 {
		r.Violation("C18/Set.concurrent/same-value-race", idx, desc, fmt.Sprintf("after adding and deleting every value the set iterates %v (Len %d)", got, s.Len()), nil)
		return
	}
	r.Count("same_value_race_rounds", int64(rounds))
	r.Distinct(fmt.Sprintf("winner|g=%d|ord=%v", G, ordered))
}

func c18Script(r *kit.Run, idx int64, rng *rand.Rand) {
	ordered := rng.IntN(2) == 0
	synced := rng.IntN(3) == 0
	dom := 6 + rng.IntN(3)
	var sets [2]*dt.Set[int]
	var mods [2]*setModel
	var script []string
	for k := range sets {
		sets[k] = &dt.Set[int]{}
		mods[k] = newSetModel(ordered)
		if !ordered && rng.IntN(3) == 0 {
			// an unordered set that starts out from a slice (duplicates included)
			init := []int{rng.IntN(dom), rng.IntN(dom), rng.IntN(dom), rng.IntN(dom)}
			sets[k] = dt.NewSetFromSlice(init)
			for _, x := range init {
				mods[k].add(x)
			}
			script = append(script, fmt.Sprintf("S%d = NewSetFromSlice(%v)", k, init))
		}
		if synced {
			sets[k].Synchronize()
		}
		if ordered {
			sets[k].Order()
		}
	}
	kinds := map[string]bool{}
	nops := 1 + rng.IntN(35)
	caseDesc := func() any {
		return map[string]any{"ordered": ordered, "synchronized": synced, "script": script}
	}
	for step := 0; step < nops; step++ {
		k := rng.IntN(2)
		s, m := sets[k], mods[k]
		v := rng.IntN(dom)
		op, retDetail := "", ""
		panicked, pv, pst := kit.Guard(func() {
			switch c := rng.IntN(16); c {
			case 0, 1, 2:
				op = "Add"
				script = append(script, fmt.Sprintf("S%d.Add(%d)", k, v))
				s.Add(v)
				m.add(v)
			case 3, 4:
				op = "AddCheck"
				script = append(script, fmt.Sprintf("S%d.AddCheck(%d)", k, v))
				got := s.AddCheck(v)
				if want := m.add(v); got != want {
					retDetail = fmt.Sprintf("AddCheck(%d)=%v, model says present-before=%v", v, got, want)
				}
			case 5, 6:
				op = "Delete"
				script = append(script, fmt.Sprintf("S%d.Delete(%d)", k, v))
				s.Delete(v)
				m.del(v)
			case 7, 8:
				op = "DeleteCheck"
				script = append(script, fmt.Sprintf("S%d.DeleteCheck(%d)", k, v))
				got := s.DeleteCheck(v)
				if want := m.del(v); got != want {
					retDetail = fmt.Sprintf("DeleteCheck(%d)=%v, model says present-before=%v", v, got, want)
				}
			case 9:
				op = "Populate"
				vals := []int{rng.IntN(dom), rng.IntN(dom), rng.IntN(dom)}
				script = append(script, fmt.Sprintf("S%d.Populate(%v)", k, vals))
				s.Populate(fun.SliceIterator(vals))
				for _, x := range vals {
					m.add(x)
				}
			case 10:
				op = "Extend"
				o := 1 - k
				if m.ordered && !mods[o].ordered {
					return // the resulting order would be the map's iteration order
				}
				script = append(script, fmt.Sprintf("S%d.Extend(S%d)", k, o))
				src := append([]int(nil), mods[o].order...)
				if !mods[o].ordered {
					src, _ = setIter(sets[o], len(mods[o].mem))
				}
				s.Extend(sets[o])
				if m.ordered {
					for _, x := range src {
						m.add(x)
					}
				} else {
					for x := range mods[o].mem {
						m.add(x)
					}
				}
			case 11, 12:
				merge := c == 11
				rev := rng.IntN(2) == 0
				op = map[bool]string{true: "SortMerge", false: "SortQuick"}[merge]
				script = append(script, fmt.Sprintf("S%d.%s(reverse=%v)", k, op, rev))
				lt := func(a, b int) bool { return a < b }
				if rev {
					lt = func(a, b int) bool { return b < a }
				}
				if merge {
					s.SortMerge(lt)
				} else {
					s.SortQuick(lt)
				}
				m.order = m.sorted()
				if rev {
					reverseInts(m.order)
				}
				m.ordered = true
			case 13:
				op = "Equal"
				o := 1 - k
				if mods[o].ordered != m.ordered {
					return // DESIGN 7(i): not compared across orderedness
				}
				script = append(script, fmt.Sprintf("S%d.Equal(S%d)", k, o))
				got := s.Equal(sets[o])
				if want := m.equal(mods[o]); got != want {
					retDetail = fmt.Sprintf("Equal=%v, model %v (S%d=%v order=%v, S%d=%v order=%v)", got, want, k, m.sorted(), m.order, o, mods[o].sorted(), mods[o].order)
				}
			case 14:
				op = "JSON"
				script = append(script, fmt.Sprintf("S%d.MarshalJSON -> fresh.UnmarshalJSON", k))
				b, err := s.MarshalJSON()
				if err != nil {
					retDetail = "MarshalJSON: " + err.Error()
					return
				}
				var arr []int
				if err := json.Unmarshal(b, &arr); err != nil {
					retDetail = fmt.Sprintf("MarshalJSON produced %q: %v", b, err)
					return
				}
				if m.ordered {
					if !eqInts(arr, m.order) {
						retDetail = fmt.Sprintf("MarshalJSON %v, model order %v", arr, m.order)
						return
					}
				} else {
					a := append([]int(nil), arr...)
					sort.Ints(a)
					if !eqInts(a, m.sorted()) {
						retDetail = fmt.Sprintf("MarshalJSON %v, model members %v", arr, m.sorted())
						return
					}
				}
				fresh := &dt.Set[int]{}
				if m.ordered {
					fresh.Order()
				}
				if err := fresh.UnmarshalJSON(b); err != nil {
					retDetail = "UnmarshalJSON: " + err.Error()
					return
				}
				fm := newSetModel(m.ordered)
				for _, x := range arr {
					fm.add(x)
				}
				if kind, d := fm.compare(fresh); kind != "" {
					retDetail = "round-tripped set: " + d
					return
				}
				if !fresh.Equal(s) || !s.Equal(fresh) {
					retDetail = "a JSON round-tripped set is not Equal to its source"
				}
			case 15:
				op = "Len+Check"
				script = append(script, fmt.Sprintf("S%d.Len()", k))
			}
		})
		if op == "" {
			continue
		}
		kinds[op] = true
		report := func(kind, detail string) {
			r.Violation("C18/Set."+op+"/"+kind, idx, caseDesc(), detail, nil)
		}
		if panicked {
			report("panic", fmt.Sprintf("panic: %v\n%s", pv, clipS(pst, 1500)))
			return
		}
		if retDetail != "" {
			report("ret-mismatch", retDetail)
			return
		}
		for q := 0; q < 2; q++ {
			var kind, d string
			cp, cv, _ := kit.Guard(func() { kind, d = mods[q].compare(sets[q]) })
			if cp {
				kind, d = "panic-in-check", fmt.Sprint(cv)
			}
			if kind != "" {
				report(kind, fmt.Sprintf("S%d: %s", q, d))
				return
			}
		}
	}
	r.Eval()
	if len(kinds) >= 3 {
		ks := make([]string, 0, len(kinds))
		for k := range kinds {
			ks = append(ks, k)
		}
		sort.Strings(ks)
		r.Distinct(fmt.Sprintf("seq|ord=%v|sync=%v|%s", ordered, synced, strings.Join(ks, ",")))
	}
	if r.WantSample() && nops > 5 {
		r.Sample(caseDesc())
	}
}

// ---- concurrent histories of a synchronized set ---------------------------

type setIn struct {
	Op  string // add | del | check | len
	Key int
}

var setModelPartitioned = porcupine.Model{
	Partition: func(h []porcupine.Operation) [][]porcupine.Operation {
		by := map[int][]porcupine.Operation{}
		for _, o := range h {
			k := o.Input.(setIn).Key
			by[k] = append(by[k], o)
		}
		var out [][]porcupine.Operation
		for _, v := range by {
			out = append(out, v)
		}
		return out
	},
	Init: func() any { return false },
	Step: func(st, in, out any) (bool, any) {
		present := st.(bool)
		switch in.(setIn).Op {
		case "sort", "sync":
			return true, present // sorting / a repeated Synchronize changes no membership
		case "add":
			return out.(bool) == present, true
		case "del":
			return out.(bool) == present, false
		default:
			return out.(bool) == present, present
		}
	},
}

var setModelWhole = porcupine.Model{
	Init: func() any { return uint32(0) },
	Step: func(st, in, out any) (bool, any) {
		mask := st.(uint32)
		i := in.(setIn)
		bit := uint32(1) << uint(i.Key)
		switch i.Op {
		case "sort", "sync":
			return true, mask
		case "add":
			return out.(bool) == (mask&bit != 0), mask | bit
		case "del":
			return out.(bool) == (mask&bit != 0), mask &^ bit
		case "check":
			return out.(bool) == (mask&bit != 0), mask
		default:
			n := 0
			for m := mask; m != 0; m &= m - 1 {
				n++
			}
			return out.(int) == n, mask
		}
	},
}

func c18History(r *kit.Run, idx int64, rng *rand.Rand) {
	ordered := rng.IntN(2) == 0
	withLen := rng.IntN(2) == 0
	s := &dt.Set[int]{}
	s.Synchronize()
	if ordered {
		s.Order()
	}
	clients := 2 + rng.IntN(3)
	nkeys := 1 + rng.IntN(3)
	per := 3 + rng.IntN(6)
	type planned struct{ in setIn }
	plans := make([][]setIn, clients)
	for c := range plans {
		for j := 0; j < per; j++ {
			k := rng.IntN(nkeys)
			switch x := rng.IntN(10); {
			case ordered && x == 3:
				// sorting an ordered set while the others use it (Key 100/101
				// selects the algorithm; the partitioned model ignores it)
				plans[c] = append(plans[c], setIn{"sort", 100 + rng.IntN(2)})
			case x == 2 && j%2 == 1:
				// Synchronize is documented as safe to call more than once
				// (callers that synchronize defensively)
				plans[c] = append(plans[c], setIn{"sync", 200})
			case x < 4:
				plans[c] = append(plans[c], setIn{"add", k})
			case x < 7:
				plans[c] = append(plans[c], setIn{"del", k})
			case x < 9 || !withLen:
				plans[c] = append(plans[c], setIn{"check", k})
			default:
				plans[c] = append(plans[c], setIn{"len", 0})
			}
		}
	}
	h := &kit.Hist{}
	procs := kit.ProcsFor(idx)
	var fatal any
	kit.WithProcs(procs, func() {
		bar := kit.NewBarrier(clients)
		var wg sync.WaitGroup
		var mu sync.Mutex
		for c := 0; c < clients; c++ {
			wg.Add(1)
			go func(c int) {
				defer wg.Done()
				defer func() {
					if p := recover(); p != nil {
						mu.Lock()
						fatal = p
						mu.Unlock()
					}
				}()
				bar.Wait()
				for _, in := range plans[c] {
					in := in
					h.Do(c, in, func() any {
						switch in.Op {
						case "sort":
							if in.Key == 100 {
								s.SortMerge(func(a, b int) bool { return a < b })
							} else {
								s.SortQuick(func(a, b int) bool { return a < b })
							}
							return true
						case "sync":
							s.Synchronize()
							return true
						case "add":
							return s.AddCheck(in.Key)
						case "del":
							return s.DeleteCheck(in.Key)
						case "check":
							return s.Check(in.Key)
						default:
							return s.Len()
						}
					})
				}
			}(c)
		}
		wg.Wait()
	})
	ops := h.Ops()
	desc := map[string]any{"ordered": ordered, "clients": clients, "keys": nkeys, "gomaxprocs": procs, "history": describeOps(ops)}
	r.Eval()
	if fatal != nil {
		r.Violation("C18/Set.concurrent/panic", idx, desc, fmt.Sprint(fatal), nil)
		return
	}
	model := setModelPartitioned
	if withLen {
		model = setModelWhole
	}
	if r.Build != "plain" {
		r.Count("histories_run_for_the_race_detector_only", 1)
		return
	}
	switch kit.CheckLin(model, ops, 20*time.Second) {
	case porcupine.Illegal:
		r.Violation("C18/Set.concurrent/not-linearizable", idx, desc, "the history of a synchronized set has no sequential explanation", nil)
		return
	case porcupine.Unknown:
		r.Inconclusive("porcupine timed out on a set history")
		return
	}
	r.Count("histories_ok", 1)
	ov := kit.Overlaps(ops)
	r.Count("overlapping_pairs", int64(ov))
	// final state at quiescence equals the model of any linearization:
	// members are determined per key by the last add/del in real-time
	// order only when unambiguous, so compare Len with iterator only
	got, _ := setIter(s, 8)
	if len(got) != s.Len() {
		r.Violation("C18/Set.concurrent/iter-len", idx, desc, fmt.Sprintf("after the history Len()=%d but the iterator yields %v", s.Len(), got), nil)
		return
	}
	seen := map[int]bool{}
	for _, v := range got {
		if seen[v] || !s.Check(v) {
			r.Violation("C18/Set.concurrent/iter-members", idx, desc, fmt.Sprintf("iterator yields %v (duplicate or non-member %d)", got, v), nil)
			return
		}
		seen[v] = true
	}
	if ov >= 2 {
		r.Distinct(fmt.Sprintf("conc|ord=%v|len=%v|c=%d|k=%d|p=%d", ordered, withLen, clients, nkeys, procs))
	}
	if r.WantSample() && ov > 0 {
		r.Sample(desc)
	}
}

func describeOps(ops []porcupine.Operation) []string {
	sort.Slice(ops, func(i, j int) bool { return ops[i].Call < ops[j].Call })
	out := make([]string, 0, len(ops))
	for _, o := range ops {
		out = append(out, fmt.Sprintf("c%d [%d,%d] %v -> %v", o.ClientId, o.Call, o.Return, o.Input, o.Output))
	}
	return out
}
